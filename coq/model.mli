
val negb : bool -> bool

type nat =
| O
| S of nat

val snd : ('a1 * 'a2) -> 'a2

val length : 'a1 list -> nat

val app : 'a1 list -> 'a1 list -> 'a1 list

type comparison =
| Eq
| Lt
| Gt

val add : nat -> nat -> nat

type positive =
| XI of positive
| XO of positive
| XH

type n =
| N0
| Npos of positive

module Pos :
 sig
  type mask =
  | IsNul
  | IsPos of positive
  | IsNeg
 end

module Coq_Pos :
 sig
  val succ : positive -> positive

  val add : positive -> positive -> positive

  val add_carry : positive -> positive -> positive

  val pred_double : positive -> positive

  type mask = Pos.mask =
  | IsNul
  | IsPos of positive
  | IsNeg

  val succ_double_mask : mask -> mask

  val double_mask : mask -> mask

  val double_pred_mask : positive -> mask

  val sub_mask : positive -> positive -> mask

  val sub_mask_carry : positive -> positive -> mask

  val mul : positive -> positive -> positive

  val size : positive -> positive

  val compare_cont : comparison -> positive -> positive -> comparison

  val compare : positive -> positive -> comparison

  val eqb : positive -> positive -> bool

  val iter_op : ('a1 -> 'a1 -> 'a1) -> positive -> 'a1 -> 'a1

  val to_nat : positive -> nat

  val of_succ_nat : nat -> positive
 end

module N :
 sig
  val succ_double : n -> n

  val double : n -> n

  val add : n -> n -> n

  val sub : n -> n -> n

  val mul : n -> n -> n

  val compare : n -> n -> comparison

  val eqb : n -> n -> bool

  val leb : n -> n -> bool

  val ltb : n -> n -> bool

  val size : n -> n

  val pos_div_eucl : positive -> n -> n * n

  val div_eucl : n -> n -> n * n

  val modulo : n -> n -> n

  val to_nat : n -> nat

  val of_nat : nat -> n
 end

val nth_error : 'a1 list -> nat -> 'a1 option

val map : ('a1 -> 'a2) -> 'a1 list -> 'a2 list

val flat_map : ('a1 -> 'a2 list) -> 'a1 list -> 'a2 list

val existsb : ('a1 -> bool) -> 'a1 list -> bool

val filter : ('a1 -> bool) -> 'a1 list -> 'a1 list

val firstn : nat -> 'a1 list -> 'a1 list

val skipn : nat -> 'a1 list -> 'a1 list

val seq : nat -> nat -> nat list

val repeat : 'a1 -> nat -> 'a1 list

type ascii =
| Ascii of bool * bool * bool * bool * bool * bool * bool * bool

val n_of_digits : bool list -> n

val n_of_ascii : ascii -> n

type string =
| EmptyString
| String of ascii * string

val list_ascii_of_string : string -> ascii list

type ('e, 'a) outcome =
| Ok of 'a
| Err of 'e
| Panic
| UB

val bind :
  ('a1, 'a2) outcome -> ('a2 -> ('a1, 'a3) outcome) -> ('a1, 'a3) outcome

val unwrap : 'a2 option -> ('a1, 'a2) outcome

val wrap8 : n -> n

val two32 : n

val lenN : 'a1 list -> n

val idx : 'a1 list -> n -> 'a1 option

val index : 'a2 list -> n -> ('a1, 'a2) outcome

val takeN : n -> 'a1 list -> 'a1 list

val dropN : n -> 'a1 list -> 'a1 list

val slice : 'a2 list -> n -> n -> ('a1, 'a2 list) outcome

val set_nth : 'a1 list -> nat -> 'a1 -> 'a1 list

val invariant : bool -> bool -> bool -> ('a1, unit) outcome

type tok =
| TN of n
| TB of n list
| TS of n list

val sym : string -> n list

val s : string -> tok

val list_eqb : n list -> n list -> bool

val is_sym : tok -> string -> bool

val bad : tok list

val b01 : bool -> tok

val top_value : n list

val encoded_value_size : n

val len_max : n

val len_min_short : n

val len_min_conservative_short : n

val len_min_normal : n

val len_min_conservative_normal : n

val len_min_long : n

val len_min_conservative_long : n

val clz32 : n -> n

val clz_table_loop : n list -> n -> n list -> n list

val clz_table : n list

val rank : n list -> n -> n

type len_cfg =
| LenClz
| LenWhole

val encode_new : len_cfg -> bool -> bool -> n -> (unit, n option) outcome

val is_valid : n -> bool

val range : n -> (unit, (n * n) option) outcome

type parse_error =
| LengthIsTooLarge
| InvalidPrefix
| InvalidCharacter
| InvalidStringLength
| InvalidChecksum

val try_from_u32 : len_cfg -> bool -> bool -> n -> (parse_error, n) outcome

type validity =
| TooSmall
| ValidWhenOptimistic
| Valid
| TooLarge

type len_mode =
| Optimistic
| Conservative

type buckets_kind =
| B48
| B128
| B256

val len_min : buckets_kind -> n

val len_min_conservative : buckets_kind -> n

val validity_new : buckets_kind -> n -> validity

val validity_is_err : validity -> bool

val validity_is_err_on : validity -> len_mode -> bool

type mcfg = { c_strict : bool; c_unsafe : bool; c_dbg : bool; c_len : len_cfg }

val cfg_of_flags : n list -> mcfg

val show_perr : parse_error -> tok

val show_validity : validity -> tok

val out_or :
  ('a1, 'a2) outcome -> ('a2 -> tok list) -> ('a1 -> tok list) -> tok list

val bk_of_variant : tok -> buckets_kind option

val dispatch_len : mcfg -> tok -> tok list -> tok list option

val dispatch : mcfg -> tok list -> tok list

val dispatch_flags : n list -> tok list -> tok list
