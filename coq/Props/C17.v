(* C17 -- The safe API is total and memory-safe in every configuration.  PARTIAL (see DESIGN.md):
   what a Gallina model can carry is (1) no operation of the public API returns Panic other than the
   documented out-of-range bucket index, and none returns UB, for every input and every configuration
   (UB = a false invariant!() under feature `unsafe`, or from_utf8_unchecked on non-ASCII);
   (2) the inventory of invariant!/unsafe sites, regenerated from the source on every run, equals the
   audited list, each entry of which is discharged by a theorem below; (3) enabling `unsafe` changes no result.
   Only property statements, each closed by [exact <lemma>] and followed by [Print Assumptions]. *)
From Coq Require Import String.
From TlshV Require Import Model.Machine Gen.Tables Gen.Sites Model.MLength Model.MHexStr Model.MHash Model.MGenerate
  Model.MFinalize Model.MCompare Model.MStream Model.MSerde Spec.SpecHex Spec.SpecDistance
  Proofs.HexLists Proofs.HashCodec Proofs.CodecProps Proofs.LengthProofs Proofs.GenUpdate Proofs.GenLen Proofs.Select
  Proofs.GenTotal Proofs.Distance Proofs.StreamProofs Proofs.SerdeProofs Proofs.ConfigIndep Proofs.TotalProofs.
Open Scope string_scope.

(* (2) the site inventory of the current source = the audited list.  A new, removed or edited
   invariant!(..), unsafe block, *_unchecked call, raw SIMD load or #[target_feature] breaks this theorem. *)
Theorem C17_site_inventory :
  invariant_sites =
    [ ("generate.rs", "Self::TAIL_SIZE > 0")                           (* C17_invariant_generate *)
    ; ("hash.rs", "value.len() == SIZE_BODY")                           (* C17_invariant_hash *)
    ; ("length.rs", "bottom <= TOP_VALUE_BY_ENCODING.len()")            (* C17_invariant_length *)
    ; ("length.rs", "top <= TOP_VALUE_BY_ENCODING.len()")               (* C17_invariant_length *)
    ; ("length.rs", "bottom <= top") ]                                  (* C17_invariant_length *)
  /\ unsafe_sites =
    [ ("compare/dist_body.rs", (9, 0, 0, 0))                            (* calls of #[target_feature] fns behind is_x86_feature_detected! / cfg(target_feature) *)
    ; ("compare/dist_body/arm_neon.rs", (0, 0, 0, 3))                   (* not compiled on this target *)
    ; ("compare/dist_body/x86_avx2.rs", (0, 0, 6, 3))                   (* loads from &[u8; 32] / &[u8; 64]: offsets 0, 16, 32, 48 < size *)
    ; ("compare/dist_body/x86_sse2.rs", (0, 0, 6, 3))
    ; ("compare/dist_body/x86_sse4_1.rs", (0, 0, 6, 3))
    ; ("generate/bucket_aggregation.rs", (7, 0, 0, 0))
    ; ("generate/bucket_aggregation/wasm32_simd128.rs", (0, 0, 1, 0))   (* not compiled on this target *)
    ; ("generate/bucket_aggregation/x86_avx2.rs", (0, 0, 1, 2))         (* load of 8 u32 after assert!(buckets.len() >= 8) *)
    ; ("generate/bucket_aggregation/x86_sse2.rs", (0, 0, 1, 2))         (* load of 4 u32 after assert!(buckets.len() >= 4) *)
    ; ("generate/bucket_aggregation/x86_ssse3.rs", (0, 0, 1, 2))
    ; ("hash.rs", (2, 2, 0, 0)) ]%N.                                    (* from_utf8_unchecked x2: C17_format_is_ascii *)
Proof. split; reflexivity. Qed.
Print Assumptions C17_site_inventory.

(* each invariant!() holds on every input: with feature `unsafe` on and debug assertions off -- the
   configuration in which a false invariant is undefined behaviour -- the enclosing operation returns normally *)
Theorem C17_invariant_generate :
  forall gc v s d, ginv gc v s -> @update unit gc v s d = Ok (feed gc v s d).
Proof. intros. apply update_feed. assumption. Qed.
Print Assumptions C17_invariant_generate.

Theorem C17_invariant_hash :
  forall c v b, lenN b = size_in_bytes v ->
    from_array c v b = strict_gate (hc_strict c) v (hash_of_bytes v b) /\ from_array c v b <> UB /\ from_array c v b <> Panic.
Proof. exact from_array_total. Qed.
Print Assumptions C17_invariant_hash.

Theorem C17_invariant_length :
  forall c unsafe_f dbg len, len < two32 -> encode_new c unsafe_f dbg len = Ok (code_of len).
Proof. exact encode_spec_lemma. Qed.
Print Assumptions C17_invariant_length.

(* from_utf8_unchecked (Display, Serialize) is applied to ASCII only: the buffer holds "T1" + uppercase hex digits *)
Theorem C17_format_is_ascii :
  forall c v h, is_variant v -> hash_ok v h ->
    display c v h = Ok (spec_format h PWithVersion) /\ ser c v true h = Ok (VStr (spec_format h PWithVersion)) /\
    Forall (fun x => x < 128) (spec_format h PWithVersion).
Proof. exact format_ascii_lemma. Qed.
Print Assumptions C17_format_is_ascii.

(* (1) totality, operation by operation; every statement is for all inputs and all configurations *)
Theorem C17_api_total :
  (* parsing, text and binary *)
  (forall c v s m, is_variant v -> bytes_all s -> parse c v s m <> Panic /\ parse c v s m <> UB) /\
  (forall c v b, from_slice c v b <> Panic /\ from_slice c v b <> UB) /\
  (* formatting into any buffer *)
  (forall c v h p buf, is_variant v -> hash_ok v h ->
     (exists n, fst (store_str c v h p buf) = Ok n) \/ fst (store_str c v h p buf) = Err BufferIsTooSmall) /\
  (forall v h buf, hash_okb v h ->
     (exists n, fst (store_bytes v h buf) = Ok n) \/ fst (store_bytes v h buf) = Err BufferIsTooSmall) /\
  (* the only documented panic: bucket index out of range *)
  (forall v h i, hash_okb v h -> is_variant v -> (@quartile unit v h i = Panic <-> spec_nb (v_bk v) <= i)) /\
  (* generator: any pieces, then finalize with any options *)
  (forall gc v pieces, is_variant v -> exists s, @update_all unit gc v (g_init gc v) pieces = Ok s) /\
  (forall sel gc v o data, sel_contract sel -> is_variant v ->
     finalize sel gc v o (fresh gc v data) <> Panic /\ finalize sel gc v o (fresh gc v data) <> UB) /\
  (* length encoding for every u32 *)
  (forall c u d len, len < two32 -> exists r, encode_new c u d len = Ok r) /\
  (* comparison *)
  (forall c v a b m, is_variant v -> hash_okb v a -> hash_okb v b -> exists d, @compare unit c a b m = Ok d) /\
  (* easy functions: streams (any reader behaviour), string comparison *)
  (forall gc v trace, is_variant v -> hash_stream sc_fixed gc v trace <> UB /\
     (hash_stream sc_fixed gc v trace = Panic -> overclaims stream_buffer_size trace = true)) /\
  (forall hc cc v l r, is_variant v -> bytes_all l -> bytes_all r ->
     compare_with hc cc v l r <> Panic /\ compare_with hc cc v l r <> UB) /\
  (* serde *)
  (forall c v hr ev, is_variant v -> (match ev with VStr s | VBytes s => bytes_all s | VOther _ => True end) ->
     de false c v hr ev <> Panic /\ de false c v hr ev <> UB).
Proof. exact api_total_lemma. Qed.
Print Assumptions C17_api_total.

(* a caller-supplied reader that misreports how much it read (claims more than the buffer holds) causes a
   clean panic -- never undefined behaviour -- in every feature configuration *)
Theorem C17_lying_reader_panics_cleanly :
  forall sc gc v trace, sc_retry sc = true -> sc_invariant sc = false -> is_variant v ->
    overclaims stream_buffer_size trace = true -> hash_stream sc gc v trace = Panic.
Proof. exact lying_reader_panics. Qed.
Print Assumptions C17_lying_reader_panics_cleanly.

(* the defect this property exposed in the pinned tree: with the invariant!(len <= buffer.len()) present and
   feature `unsafe`, a reader returning buf.len()+1 reaches unreachable_unchecked *)
Theorem C17_reader_ub_refuted_before_fix :
  let gc := {| gc_low_mem := false; gc_double := true; gc_unsafe := true; gc_dbg := false |} in
  hash_stream sc_before_fixes gc V_Normal [RLie 1] = UB /\ hash_stream sc_fixed gc V_Normal [RLie 1] = Panic.
Proof. exact reader_ub_refuted_before_fix. Qed.
Print Assumptions C17_reader_ub_refuted_before_fix.

(* (3) enabling the `unsafe` feature (or debug assertions, or any optimisation switch) changes no result *)
Theorem C17_unsafe_changes_nothing :
  (forall c1 c2 v s m, is_variant v -> bytes_all s -> hc_strict c1 = hc_strict c2 -> parse c1 v s m = parse c2 v s m) /\
  (forall c1 c2 v b, hc_strict c1 = hc_strict c2 -> from_slice c1 v b = from_slice c2 v b) /\
  (forall c1 c2 v h p out, is_variant v -> hash_okb v h ->
     store_str c1 v h p out = store_str c2 v h p out /\ display c1 v h = display c2 v h) /\
  (forall sel1 sel2 gc1 gc2 v o pieces, sel_contract sel1 -> sel_contract sel2 -> is_variant v ->
     (do s <- @update_all gen_error gc1 v (g_init gc1 v) pieces; finalize sel1 gc1 v o s) =
     (do s <- @update_all gen_error gc2 v (g_init gc2 v) pieces; finalize sel2 gc2 v o s)) /\
  (forall c1 c2 v a b m, is_variant v -> hash_okb v a -> hash_okb v b -> @compare unit c1 a b m = @compare unit c2 a b m) /\
  (forall c1 c2 u1 u2 d1 d2 len, len < two32 -> encode_new c1 u1 d1 len = encode_new c2 u2 d2 len).
Proof.
  exact (conj parse_config_independent (conj from_slice_config_independent (conj format_config_independent
        (conj generate_config_independent (conj compare_config_independent encode_config_independent))))).
Qed.
Print Assumptions C17_unsafe_changes_nothing.

Example C17_nonvacuous :
  let gc := {| gc_low_mem := true; gc_double := false; gc_unsafe := true; gc_dbg := false |} in
  overclaims stream_buffer_size [RData [1; 2; 3]; RInterrupted; RLie 1] = true /\
  hash_stream sc_fixed gc V_Short [RData [1; 2; 3]; RInterrupted; RLie 1] = Panic /\
  @quartile unit V_Short {| h_cks := [1]; h_len := 2; h_q := 3; h_body := repeat 0x1B 12 |} 48 = Panic.
Proof. vm_compute. repeat split; reflexivity. Qed.
