(* C15 -- Strict parser rejects exactly impossible hashes; generated hashes always pass.
   Only property statements, each closed by [exact <lemma>] and followed by [Print Assumptions]. *)
From TlshV Require Import Model.Machine Gen.Tables Model.MLength Model.MHexStr Model.MHash Model.MGenerate Model.MFinalize
  Spec.SpecHex Spec.SpecGenerate Proofs.HexLists Proofs.HashCodec Proofs.CodecProps Proofs.LengthProofs Proofs.Select Proofs.GenUpdate
  Proofs.GenValid.

(* what the strict parser additionally demands: length code below 170 and, on the 48-bucket variant,
   checksum byte at most 48 (constants regenerated from the source) *)
Theorem C15_validity_meaning :
  forall v h, is_variant v -> hash_okb v h ->
    (strict_valid v h = true <->
     h_len h < 170 /\ (v_bk v = B48 -> exists c, h_cks h = [c] /\ c <= 48)).
Proof. exact strict_valid_meaning. Qed.
Print Assumptions C15_validity_meaning.

(* text: accepted by the parser of configuration c (strict or not) iff accepted by the same parser with
   strictness off and, when c is strict, the value is valid; the value is the lenient parser's *)
Theorem C15_strict_accepts_text :
  forall c v s m h, is_variant v -> bytes_all s ->
    (parse c v s m = Ok h <->
     parse (lenient_of c) v s m = Ok h /\ (hc_strict c = true -> strict_valid v h = true)).
Proof. exact strict_accepts_text_lemma. Qed.
Print Assumptions C15_strict_accepts_text.

(* rejected only for one of the two reasons: the checksum error, else the length error *)
Theorem C15_strict_error_kinds_text :
  forall c v s m h, is_variant v -> bytes_all s -> hc_strict c = true -> parse (lenient_of c) v s m = Ok h ->
    (checksum_is_valid v (h_cks h) = false -> parse c v s m = Err InvalidChecksum) /\
    (checksum_is_valid v (h_cks h) = true -> is_valid (h_len h) = false -> parse c v s m = Err LengthIsTooLarge).
Proof. exact strict_error_kinds_text_lemma. Qed.
Print Assumptions C15_strict_error_kinds_text.

(* byte arrays / slices *)
Theorem C15_strict_accepts_bytes :
  forall c v b h,
    (from_slice c v b = Ok h <->
     from_slice (lenient_of c) v b = Ok h /\ (hc_strict c = true -> strict_valid v h = true)).
Proof. exact strict_accepts_bytes_lemma. Qed.
Print Assumptions C15_strict_accepts_bytes.

Theorem C15_strict_error_kinds_bytes :
  forall c v b h, hc_strict c = true -> from_slice (lenient_of c) v b = Ok h ->
    (checksum_is_valid v (h_cks h) = false -> from_slice c v b = Err InvalidChecksum) /\
    (checksum_is_valid v (h_cks h) = true -> is_valid (h_len h) = false -> from_slice c v b = Err LengthIsTooLarge).
Proof. exact strict_error_kinds_bytes_lemma. Qed.
Print Assumptions C15_strict_error_kinds_bytes.

(* every hash the reference algorithm can produce is a well-formed value that passes both gates *)
Theorem C15_reference_hashes_are_valid :
  forall v o d h, is_variant v -> spec_tlsh v o d = inl h -> hash_ok v h /\ strict_valid v h = true.
Proof. exact generated_hash_ok. Qed.
Print Assumptions C15_reference_hashes_are_valid.

(* HEADLINE: every hash the generator can produce -- any pieces, any of the 32 option settings, any generator
   configuration, any std-conforming selection -- is valid, and survives the round trip through the text
   form (either prefix, auto-detected or requested) and the binary form under ANY parser configuration,
   strict included *)
Theorem C15_generated_survive_strict_roundtrip :
  forall sel gc v o pieces h (c : hcfg) p m (buf : list N),
    sel_contract sel -> is_variant v ->
    (do s <- @update_all gen_error gc v (g_init gc v) pieces; finalize sel gc v o s) = Ok h ->
    (m = None \/ m = Some p) -> lenN buf = size_in_bytes v ->
    hash_ok v h /\ strict_valid v h = true /\
    parse c v (spec_format h p) m = Ok h /\
    from_slice c v (h_cks h ++ [h_len h; h_q h] ++ h_body h) = Ok h.
Proof. exact generated_strict_roundtrip. Qed.
Print Assumptions C15_generated_survive_strict_roundtrip.

(* non-vacuity: a value the strict parser rejects for each reason, and one it accepts *)
Example C15_nonvacuous :
  let mk c l := {| h_cks := [c]; h_len := l; h_q := 0x11; h_body := repeat 0x1B 12 |} in
  strict_valid V_Short (mk 48 169) = true /\ strict_valid V_Short (mk 49 169) = false /\
  strict_valid V_Short (mk 48 170) = false /\
  strict_valid V_Normal {| h_cks := [255]; h_len := 169; h_q := 0; h_body := repeat 0 32 |} = true.
Proof. vm_compute. repeat split; reflexivity. Qed.
