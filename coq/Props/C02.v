(* C02 -- Distance between two hashes equals the TLSH reference distance.
   Only property statements, each closed by [exact <lemma>] and followed by [Print Assumptions].
   The bit-sliced kernels (Gen/Kernels.v) are regenerated from /repo's source on every run. *)
From TlshV Require Import Model.Machine Gen.Tables Gen.Kernels Model.MLength Model.MHash Model.MLanes Model.MCompare
  Spec.SpecDistance Proofs.HexLists Proofs.HashCodec Proofs.Lanes Proofs.DistSweeps Proofs.Distance.

(* HEADLINE: for every pair of hash values of the same variant (all byte patterns, not only generatable
   ones), either comparison mode, every header-table configuration (length table on/off, Q-ratio naive /
   16x16 / 256x256 table, debug assertions on/off) and every body backend (pseudo-SIMD 32/64, SSE2,
   SSE4.1, AVX2): compare_with_config returns normally and equals the reference distance. *)
Theorem C02_compare_is_reference :
  forall (c : ccfg) (v : variant) (a b : hash) (m : cmp_mode),
    is_variant v -> hash_okb v a -> hash_okb v b ->
    @compare unit c a b m = Ok (spec_distance a b m).
Proof. exact compare_is_reference_lemma. Qed.
Print Assumptions C02_compare_is_reference.

(* the reference: sum over body dibit pairs of |x-y| with 3 replaced by 6, one per differing checksum
   byte, mod-16 ring distance of each Q ratio (d<=1 ? d : (d-1)*12), and unless NoLength the mod-256
   ring distance of the length codes (d<=1 ? d : d*12) *)
Theorem C02_reference_unfolded :
  forall a b m,
    spec_distance a b m =
    sum (map (fun p => sum (map (fun q => dd (fst q) (snd q)) (combine (dibits (fst p)) (dibits (snd p)))))
             (combine (h_body a) (h_body b)))
    + sum (map (fun p => if fst p =? snd p then 0 else 1) (combine (h_cks a) (h_cks b)))
    + (qd (h_q a mod 16) (h_q b mod 16) + qd (h_q a / 16) (h_q b / 16))
    + match m with CmpDefault => ld (h_len a) (h_len b) | CmpNoLength => 0 end.
Proof. reflexivity. Qed.
Print Assumptions C02_reference_unfolded.

(* the lane theorem: a straight-line word program equals the lane-wise application of its 8-bit
   version on every word of m >= 1 byte lanes, provided the reflective checker accepts every lane's
   input pair (no carry, borrow or shifted-out bit crosses a lane; bits shifted in are masked) *)
Theorem C02_lane_homomorphism :
  forall (p : program) (out : nat) (X Y : list N),
    X <> [] -> length X = length Y ->
    (forall a b, In (a, b) (combine X Y) -> lane_safe p out a b = true) ->
    eval (length X) p out (pack X) (pack Y) = pack (map2 (eval 1 p out) X Y).
Proof. exact lane_homomorphism. Qed.
Print Assumptions C02_lane_homomorphism.

(* exhaustive(5 x 65536): each kernel regenerated from the source is lane-safe on every byte pair and
   its 8-bit version equals the reference distance of the four dibit pairs *)
Theorem C02_kernels_checked :
  kernel_ok pseudo32_lanes pseudo32_out = true /\ kernel_ok pseudo64_lanes pseudo64_out = true /\
  kernel_ok sse2_lanes sse2_out = true /\ kernel_ok sse41_lanes sse41_out = true /\
  kernel_ok avx2_lanes avx2_out = true.
Proof. exact (conj pseudo32_ok (conj pseudo64_ok (conj sse2_ok (conj sse41_ok avx2_ok)))). Qed.
Print Assumptions C02_kernels_checked.

(* the horizontal sums in the source have the shape the model's wrappers assume, and the published
   constants regenerated from the source have the reference values *)
Theorem C02_epilogues_and_constants :
  (pseudo64_epilogue = [EMul 72340172838076673; EShr 56] /\
   pseudo32_epilogue = [EMul 16843009; EShr 24] /\
   sse41_epilogue = [EMul32 16843009; EShr32 24] /\
   avx2_epilogue = [EMul32 16843009; EShr32 24] /\
   sse2_epilogue = [EShl16 EIn 8; EShr16 EIn 8; EShr16 (ERef 0) 8; EAdd16 (ERef 1) (ERef 2)]) /\
  (body_outlier_value = 6 /\ body_max_distance_short = 288 /\ body_max_distance_normal = 768 /\
   body_max_distance_long = 1536 /\ length_mult = 12 /\ qratio_mult = 12 /\
   length_max_distance = 1536 /\ qratios_max_distance = 168).
Proof. exact (conj epilogues_shape distance_constants). Qed.
Print Assumptions C02_epilogues_and_constants.

(* every body backend, on bodies of the three sizes *)
Theorem C02_body_backends :
  forall c a b, (length a = 12 \/ length a = 32 \/ length a = 64)%nat -> length b = length a ->
    bytes_all a -> bytes_all b -> dist_body c a b = body_dist a b.
Proof. exact dist_body_spec. Qed.
Print Assumptions C02_body_backends.

(* header parts under every table configuration (complete enumeration of 12 x 65536 cases) *)
Theorem C02_header_parts :
  forall c a b, a < 256 -> b < 256 ->
    @dist_length unit c a b = Ok (ld a b) /\ @dist_q unit c a b = Ok (q_dist a b).
Proof. intros c a b Ha Hb. exact (conj (dist_length_spec c a b Ha Hb) (dist_q_spec c a b Ha Hb)). Qed.
Print Assumptions C02_header_parts.

(* known answer of the official implementation (timing_unittest): distance 138 *)
Example C02_known_answer :
  let h1 := hash_of_bytes V_Normal [26; 82; 0; 8; 140; 131; 139; 10; 15; 14; 195; 192; 172; 171; 130; 243; 184; 34; 139; 3; 8; 207; 163; 2; 51; 140; 15; 10; 226; 194; 79; 40; 0; 0; 8] in
  let h2 := hash_of_bytes V_Normal [146; 82; 33; 16; 244; 193; 141; 10; 95; 6; 97; 196; 246; 77; 144; 91; 88; 82; 83; 163; 2; 79; 2; 35; 35; 229; 7; 76; 197; 96; 25; 4; 136; 109; 28] in
  spec_distance h1 h2 CmpDefault = 138 /\ spec_distance h2 h1 CmpDefault = 138 /\
  @compare unit {| cc_len_table := true; cc_q := QTableDouble; cc_body := 4; cc_dbg := true |} h1 h2 CmpDefault = Ok 138.
Proof. vm_compute. repeat split; reflexivity. Qed.
