(* C04 -- Hex text form round-trips and is canonical.
   Only property statements, each closed by [exact <lemma>] and followed by [Print Assumptions].
   [c : hcfg] ranges over every table / SIMD / strictness configuration of the codec. *)
From TlshV Require Import Model.Machine Model.MLength Model.MHexStr Model.MHash Spec.SpecHex
  Proofs.HexLists Proofs.HashCodec Proofs.CodecProps.

Definition bytes (s : list N) : Prop := Forall (fun x => x < 256) s.

(* what a strict parser additionally demands of a value (vacuous for the lenient parser) *)
Definition passes_strict (c : hcfg) (v : variant) (h : hash) : Prop :=
  hc_strict c = true -> strict_valid v h = true.

(* store_into_str_bytes into any large-enough buffer, then parse the written text back
   (auto-detected or explicitly requested prefix mode): the identical hash *)
Theorem C04_store_then_parse :
  forall c v h p m buf, is_variant v -> hash_ok v h -> passes_strict c v h ->
    (m = None \/ m = Some p) -> str_len v p <= lenN buf ->
    fst (store_str c v h p buf) = Ok (str_len v p) /\
    parse c v (takeN (str_len v p) (snd (store_str c v h p buf))) m = Ok h.
Proof. exact store_then_parse_lemma. Qed.
Print Assumptions C04_store_then_parse.

(* Display / to_string is the "T1" form, and parses back *)
Theorem C04_display_parses_back :
  forall c v h, is_variant v -> hash_ok v h -> passes_strict c v h ->
    display c v h = Ok (spec_format h PWithVersion) /\
    parse c v (spec_format h PWithVersion) None = Ok h.
Proof.
  intros c v h Hv Hh Hs. split.
  - apply display_spec; [exact Hv|apply hash_ok_okb; assumption].
  - apply parse_format_lemma; auto.
Qed.
Print Assumptions C04_display_parses_back.

(* exactly the advertised length; optional "T1"; then uppercase hex digits only *)
Theorem C04_format_shape :
  forall v h p, is_variant v -> hash_ok v h ->
    lenN (spec_format h p) = str_len v p /\
    exists t, spec_format h p = prefix_text p ++ t /\ forallb is_upper_hexdigit t = true.
Proof. exact format_shape_lemma. Qed.
Print Assumptions C04_format_shape.

(* the text store_into_str_bytes writes is the reference text (so the shape theorem is about it) *)
Theorem C04_store_writes_reference_text :
  forall c v h p out, is_variant v -> hash_okb v h ->
    store_str c v h p out =
    if lenN out <? str_len v p then (Err BufferIsTooSmall, out)
    else (Ok (str_len v p), spec_format h p ++ dropN (str_len v p) out).
Proof. exact store_str_spec. Qed.
Print Assumptions C04_store_writes_reference_text.

(* every accepted string re-formats to "T1" + its own upper-cased digits *)
Theorem C04_canonical :
  forall c v s m h, is_variant v -> bytes s -> parse c v s m = Ok h ->
    exists p, resolve_prefix v s m = Some p /\
      display c v h = Ok ([84; 49] ++ map upper (digits_of s p)).
Proof. exact canonical_lemma. Qed.
Print Assumptions C04_canonical.

(* hence two accepted strings denoting the same hash are equal up to letter case and prefix *)
Theorem C04_injective_up_to_case_and_prefix :
  forall c v s1 m1 s2 m2 h p1 p2, is_variant v -> bytes s1 -> bytes s2 ->
    parse c v s1 m1 = Ok h -> parse c v s2 m2 = Ok h ->
    resolve_prefix v s1 m1 = Some p1 -> resolve_prefix v s2 m2 = Some p2 ->
    map upper (digits_of s1 p1) = map upper (digits_of s2 p2).
Proof. exact same_hash_same_text_lemma. Qed.
Print Assumptions C04_injective_up_to_case_and_prefix.

(* Non-vacuity: a concrete Short hash formats and parses back under two configurations. *)
Definition ex_hash : hash :=
  {| h_cks := [0x2a]; h_len := 0x51; h_q := 0xc3; h_body := [1; 2; 3; 4; 5; 6; 7; 8; 9; 10; 171; 255] |}.
Definition ex_cfg (strict : bool) (d : hex_dec) (e : hex_enc) (sp sc : bool) : hcfg :=
  {| hc_strict := strict; hc_dec := d; hc_enc := e; hc_simd_parse := sp; hc_simd_convert := sc;
     hc_unsafe := false; hc_dbg := true |}.
Example C04_nonvacuous :
  display (ex_cfg true DecHalf EncMin false false) V_Short ex_hash
    = Ok [84;49; 65;50; 49;53; 51;67; 48;49;48;50;48;51;48;52;48;53;48;54;48;55;48;56;48;57;48;65;65;66;70;70] /\
  parse (ex_cfg false DecFull EncFull true true) V_Short
    [97;50; 49;53; 51;99; 48;49;48;50;48;51;48;52;48;53;48;54;48;55;48;56;48;57;48;97;97;98;102;70] None = Ok ex_hash.
Proof. vm_compute. split; reflexivity. Qed.
