(* C10 -- Published length limits are enforced; permissive options only widen acceptance. *)
From TlshV Require Import Model.Machine Gen.Tables Model.MLength Model.MHash Model.MGenerate Model.MFinalize
  Proofs.GenUpdate Proofs.GenLen Proofs.Select Proofs.Finalize Proofs.FinalizeChar Proofs.GenProps.

(* finalize reports a data-length error exactly when DataLengthValidity::new(len).is_err_on(mode)
   and small inputs are not explicitly allowed; TooLarge is never waivable; length errors take
   precedence over the data-distribution errors *)
Theorem C10_length_gate :
  forall sel gc v o s, sel_contract sel -> is_variant v -> reachable gc v s ->
    match length_error_expected (v_bk v) o (fin_len s) with
    | Some e => finalize sel gc v o s = Err e
    | None => forall e, finalize sel gc v o s = Err e -> is_len_error e = false
    end.
Proof.
  intros sel gc v o s Hs Hv Hr. rewrite finalize_reachable by assumption. apply finalize_value_length_gate.
Qed.
Print Assumptions C10_length_gate.

Theorem C10_too_large_never_waived :
  forall bk o len, gate_len bk o len = Err TooLargeInput <-> len_max < len.
Proof. exact gate_len_too_large. Qed.
Print Assumptions C10_too_large_never_waived.

(* more permissive options (optimistic instead of conservative, any allow_* flag switched on; same
   Q-ratio mode) never turn a success into a failure and never change an accepted hash *)
Theorem C10_options_monotone :
  forall sel gc v o o' s h, sel_contract sel -> is_variant v -> reachable gc v s -> options_le o o' ->
    finalize sel gc v o s = Ok h -> finalize sel gc v o' s = Ok h.
Proof.
  intros sel gc v o o' s h Hs Hv Hr Hle. rewrite !finalize_reachable by assumption.
  apply finalize_value_monotone. exact Hle.
Qed.
Print Assumptions C10_options_monotone.

Theorem C10_quarter_implies_half :
  forall sel gc v o s, sel_contract sel -> is_variant v -> reachable gc v s -> o_quarter o = true ->
    finalize sel gc v o s =
    finalize sel gc v {| o_mode := o_mode o; o_pure_int := o_pure_int o; o_small := o_small o;
                         o_half := true; o_quarter := true |} s.
Proof.
  intros sel gc v o s Hs Hv Hr Hq. rewrite !finalize_reachable by assumption.
  apply quarter_implies_half_value. exact Hq.
Qed.
Print Assumptions C10_quarter_implies_half.

(* dummy quartiles (1,1,1) replace the real ones only when q3 = 0 *)
Theorem C10_dummy_quartiles_only_when_q3_zero :
  forall o q r, gate_q3 o q = Ok r -> r = q \/ (snd q = 0 /\ r = (1, 1, 1)).
Proof. exact gate_q3_dummy_only_when_zero. Qed.
Print Assumptions C10_dummy_quartiles_only_when_q3_zero.

(* the constants: MIN / MIN_CONSERVATIVE / MAX of the classifier as regenerated from the source *)
Theorem C10_constants :
  (len_min B48, len_min_conservative B48) = (10, 10) /\
  (len_min B128, len_min_conservative B128) = (50, 128) /\
  (len_min B256, len_min_conservative B256) = (50, 128) /\ len_max = 4224281216.
Proof. vm_compute. repeat split; reflexivity. Qed.
Print Assumptions C10_constants.

Example C10_nonvacuous :
  let o0 := {| o_mode := Conservative; o_pure_int := true; o_small := false; o_half := false; o_quarter := false |} in
  let o1 := {| o_mode := Optimistic; o_pure_int := true; o_small := true; o_half := false; o_quarter := true |} in
  options_le o0 o1 /\ gate_len B128 o0 60 = Err TooSmallInput /\ gate_len B128 o1 60 = Ok tt /\
  gate_len B128 o1 4224281217 = Err TooLargeInput /\ length_error_expected B48 o0 9 = Some TooSmallInput.
Proof. vm_compute. repeat split; reflexivity. Qed.
