(* C05 -- Hex parser accepts exactly the well-formed strings and never panics. *)
From TlshV Require Import Model.Machine Model.MLength Model.MHexStr Model.MHash Spec.SpecHex
  Proofs.HexLists Proofs.HashCodec Proofs.CodecProps.

Definition bytes (s : list N) : Prop := Forall (fun x => x < 256) s.

(* totality: every byte sequence of any length and content, every prefix mode, every table /
   SIMD configuration, strict or lenient: a normal return (no panic, no UB) *)
Theorem C05_parse_total :
  forall c v s m, is_variant v -> bytes s -> parse c v s m <> Panic /\ parse c v s m <> UB.
Proof. exact parse_total_lemma. Qed.
Print Assumptions C05_parse_total.

(* lenient parser: the implementation model equals the reference parser, result and error alike *)
Theorem C05_parse_is_reference :
  forall c v s m, hc_strict c = false -> is_variant v -> bytes s ->
    parse c v s m = match spec_parse v s m with inl h => Ok h | inr e => Err e end.
Proof. exact parse_lenient_spec. Qed.
Print Assumptions C05_parse_is_reference.

(* Ok exactly for well-formed input, and then the value the digits denote *)
Theorem C05_parse_exact :
  forall c v s m, hc_strict c = false -> is_variant v -> bytes s ->
    ((exists h, parse c v s m = Ok h) <-> wellformed v s m = true) /\
    (forall h, parse c v s m = Ok h -> spec_parse v s m = inl h).
Proof. exact parse_exact_lemma. Qed.
Print Assumptions C05_parse_exact.

(* errors: wrong length <-> InvalidStringLength; otherwise an error that applies *)
Theorem C05_parse_errors :
  forall c v s m e, hc_strict c = false -> is_variant v -> bytes s -> parse c v s m = Err e ->
    (e = InvalidStringLength <-> wrong_length v s m = true) /\
    (e = InvalidPrefix -> exists p, resolve_prefix v s m = Some p /\ p = PWithVersion /\ prefix_ok s p = false) /\
    (e = InvalidCharacter -> exists p, resolve_prefix v s m = Some p /\ forallb is_hexdigit (digits_of s p) = false) /\
    (e = InvalidStringLength \/ e = InvalidPrefix \/ e = InvalidCharacter).
Proof. exact parse_errors_lemma. Qed.
Print Assumptions C05_parse_errors.

Definition lenient_cfg : hcfg :=
  {| hc_strict := false; hc_dec := DecQuarter; hc_enc := EncFull; hc_simd_parse := false;
     hc_simd_convert := false; hc_unsafe := false; hc_dbg := true |}.
Example C05_nonvacuous :
  parse lenient_cfg V_Short (repeat 48 30) None
    = Ok {| h_cks := [0]; h_len := 0; h_q := 0; h_body := repeat 0 12 |} /\
  parse lenient_cfg V_Short (repeat 48 31) None = Err InvalidStringLength /\
  parse lenient_cfg V_Short (116 :: 49 :: repeat 48 30) None = Err InvalidPrefix /\
  parse lenient_cfg V_Short (84 :: 49 :: repeat 48 29 ++ [103]) None = Err InvalidCharacter /\
  parse lenient_cfg V_Short (84 :: 49 :: repeat 255 30) (Some PWithVersion) = Err InvalidCharacter.
Proof. vm_compute. repeat split; reflexivity. Qed.
