(* C06 -- Binary form round-trips; binary, hex and accessors describe the same parts. *)
From TlshV Require Import Model.Machine Model.MLength Model.MHexStr Model.MHash Spec.SpecHex
  Proofs.HexLists Proofs.HashCodec Proofs.CodecProps.

Definition bytes (s : list N) : Prop := Forall (fun x => x < 256) s.

(* every byte array of the right size converts (lenient) and stores back to the same bytes *)
Theorem C06_bytes_roundtrip :
  forall c v b buf, hc_strict c = false -> lenN b = size_in_bytes v -> bytes b ->
    lenN buf = size_in_bytes v ->
    from_array c v b = Ok (hash_of_bytes v b) /\ from_slice c v b = Ok (hash_of_bytes v b) /\
    store_bytes v (hash_of_bytes v b) buf = (Ok (size_in_bytes v), b).
Proof. exact bytes_roundtrip_lemma. Qed.
Print Assumptions C06_bytes_roundtrip.

(* every hash stores as checksum ++ [length; q] ++ body and converts back to itself *)
Theorem C06_hash_roundtrip :
  forall c v h buf, hash_okb v h -> (hc_strict c = true -> strict_valid v h = true) ->
    lenN buf = size_in_bytes v ->
    store_bytes v h buf = (Ok (size_in_bytes v), h_cks h ++ [h_len h; h_q h] ++ h_body h) /\
    from_array c v (h_cks h ++ [h_len h; h_q h] ++ h_body h) = Ok h /\
    from_slice c v (h_cks h ++ [h_len h; h_q h] ++ h_body h) = Ok h.
Proof. exact hash_roundtrip_lemma. Qed.
Print Assumptions C06_hash_roundtrip.

(* a slice of any other length is rejected with the length error (any configuration) *)
Theorem C06_wrong_length_rejected :
  forall c v s, lenN s <> size_in_bytes v -> from_slice c v s = Err InvalidStringLength.
Proof. exact from_slice_length_lemma. Qed.
Print Assumptions C06_wrong_length_rejected.

Theorem C06_lenient_rejects_only_wrong_length :
  forall c v s, hc_strict c = false ->
    (from_slice c v s = Err InvalidStringLength <-> lenN s <> size_in_bytes v) /\
    (lenN s = size_in_bytes v -> from_slice c v s = Ok (hash_of_bytes v s)).
Proof. exact from_slice_lenient_iff. Qed.
Print Assumptions C06_lenient_rejects_only_wrong_length.

(* Q2 in the high nibble, Q1 in the low nibble *)
Theorem C06_qratio_byte :
  forall h, h_q h < 256 -> h_q h = q2ratio h * 16 + q1ratio h /\ q1ratio h < 16 /\ q2ratio h < 16.
Proof. exact q_byte_layout. Qed.
Print Assumptions C06_qratio_byte.

(* per-bucket quartile: bucket i lives in byte |body|-1-i/4, bits 2(i mod 4); first bucket in the
   low bits of the last body byte; an index >= the bucket count panics (the documented panic) *)
Theorem C06_quartile :
  forall v h i, hash_okb v h -> is_variant v ->
    @quartile unit v h i =
    if i <? spec_nb (v_bk v)
    then Ok ((nth (N.to_nat (spec_body_size v - 1 - i / 4)) (h_body h) 0 / 4 ^ (i mod 4)) mod 4)
    else Panic.
Proof. exact (@quartile_spec unit). Qed.
Print Assumptions C06_quartile.

(* the hex form is exactly the binary bytes with the header bytes nibble-swapped *)
Theorem C06_hex_is_swapped_binary :
  forall c v h, is_variant v -> hash_okb v h ->
    display c v h =
    Ok ([84; 49] ++ flat_map hex_hi_lo (map swap_nibbles (h_cks h ++ [h_len h; h_q h]) ++ h_body h)).
Proof. exact hex_is_swapped_binary_lemma. Qed.
Print Assumptions C06_hex_is_swapped_binary.

(* clear_checksum zeroes the checksum bytes (1 or 3) and nothing else *)
Theorem C06_clear_checksum :
  forall v h, hash_okb v h ->
    spec_bytes (clear_checksum h) = repeat 0 (N.to_nat (v_cks v)) ++ dropN (v_cks v) (spec_bytes h).
Proof. exact clear_checksum_spec. Qed.
Print Assumptions C06_clear_checksum.

Example C06_nonvacuous :
  let h := {| h_cks := [1; 2; 3]; h_len := 7; h_q := 0xA5; h_body := repeat 0x1B 32 |} in
  @quartile unit V_NormalLong h 0 = Ok 3 /\ @quartile unit V_NormalLong h 1 = Ok 2 /\
  @quartile unit V_NormalLong h 127 = Ok 0 /\ @quartile unit V_NormalLong h 128 = Panic /\
  q1ratio h = 5 /\ q2ratio h = 10 /\
  spec_bytes (clear_checksum h) = [0; 0; 0; 7; 0xA5] ++ repeat 0x1B 32.
Proof. vm_compute. repeat split; reflexivity. Qed.
