(* C18 -- Core operations never allocate; the crate builds without std and alloc.  PARTIAL:
   the theorems are about the conditional-compilation structure regenerated from the source
   (Gen/AllocSites.v): which places name something from std/alloc and under which cfg.  What
   the compiled code does at run time is tied to them only by the correspondence suites
   (counting allocator around library calls; real `cargo build --no-default-features`). *)
From Coq Require Import List String Bool.
From TlshV Require Import Model.MCfgForm Model.MAlloc Gen.AllocSites Spec.AllocSpec
  Proofs.CfgTaut Proofs.AllocProofs.
Import ListNotations.
Open Scope string_scope.

(* every configuration: any assignment of every cfg atom (features, test, doc, target_arch, ..)
   that respects Cargo.toml's feature implications.  Whatever is compiled in it names only
   things of a crate that is linked in it. *)
Theorem C18_every_configuration_links_what_it_names :
  forall env, closed feature_graph env = true ->
  forall s, In s sites -> eval env (s_cfg s) = true -> eval env (need (s_kind s)) = true.
Proof. exact links_what_it_names. Qed.
Print Assumptions C18_every_configuration_links_what_it_names.

(* the advertised build: with std and alloc both off nothing that needs either is compiled *)
Theorem C18_nothing_needs_std_or_alloc_when_both_are_off :
  forall env, closed feature_graph env = true ->
  env "f:std" = false -> env "f:alloc" = false -> env "test" = false -> env "doc" = false ->
  forall s, In s sites -> eval env (s_cfg s) = false.
Proof. exact nothing_needs_std_or_alloc_when_both_are_off. Qed.
Print Assumptions C18_nothing_needs_std_or_alloc_when_both_are_off.

(* in every non-test configuration a heap type, heap macro, allocating method or alloc:: path
   is compiled only inside the documented helpers, and a std item elsewhere is one of the
   audited non-allocating names *)
Theorem C18_heap_only_in_documented_helpers :
  forall env, closed feature_graph env = true -> env "test" = false -> env "doc" = false ->
  forall s, In s sites -> eval env (s_cfg s) = true -> documented s = true.
Proof. exact heap_only_in_documented_helpers. Qed.
Print Assumptions C18_heap_only_in_documented_helpers.

(* the decision procedure the three statements rest on *)
Theorem C18_tautology_checker_sound :
  forall g f, taut_closed g f = true -> forall env, closed g env = true -> eval env f = true.
Proof. exact taut_closed_sound. Qed.
Print Assumptions C18_tautology_checker_sound.

Example C18_nonvacuous :
  closed feature_graph (env_of default_on) = true /\
  existsb (fun s => eval (env_of default_on) (s_cfg s) && mem_str (s_text s) ["vec!"]) sites = true /\
  closed feature_graph (env_of []) = true.
Proof. exact (conj default_env_closed (conj default_env_has_the_buffer bare_env_closed)). Qed.
