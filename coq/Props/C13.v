(* C13 -- String comparison helpers equal parse-then-compare and blame the right side.
   Only property statements, each closed by [exact <lemma>] and followed by [Print Assumptions]. *)
From TlshV Require Import Model.Machine Gen.Tables Model.MLength Model.MHexStr Model.MHash Model.MCompare Model.MStream
  Spec.SpecHex Spec.SpecDistance Proofs.HexLists Proofs.HashCodec Proofs.CodecProps Proofs.StreamProofs.

(* both parse: the distance of the two parsed hashes (default mode) = the reference distance *)
Theorem C13_both_parse :
  forall hc cc v l r a b, is_variant v -> bytes_all l -> bytes_all r ->
    parse hc v l None = Ok a -> parse hc v r None = Ok b ->
    compare_with hc cc v l r = Ok (spec_distance a b CmpDefault) /\
    @compare unit cc a b CmpDefault = Ok (spec_distance a b CmpDefault).
Proof.
  intros hc cc v l r a b Hv Bl Br H1 H2. split; [apply compare_with_both; assumption|].
  apply (Proofs.Distance.compare_is_reference_lemma cc v); try assumption;
    [exact (parse_ok_okb _ _ _ _ _ Hv Bl H1)|exact (parse_ok_okb _ _ _ _ _ Hv Br H2)].
Qed.
Print Assumptions C13_both_parse.

(* the left string does not parse: the error names the left side with the parser's error, whatever the right is *)
Theorem C13_left_error :
  forall hc cc v l r e, parse hc v l None = Err e -> compare_with hc cc v l r = Err (SLeft, e).
Proof. exact compare_with_left_error. Qed.
Print Assumptions C13_left_error.

(* otherwise, the right string does not parse: the right side *)
Theorem C13_right_error :
  forall hc cc v l r a e, parse hc v l None = Ok a -> parse hc v r None = Err e ->
    compare_with hc cc v l r = Err (SRight, e).
Proof. exact compare_with_right_error. Qed.
Print Assumptions C13_right_error.

(* insensitive to hex letter case and to the presence of the "T1" prefix on either side: replacing either
   accepted string by its canonical text ("T1" + its upper-cased digits) changes nothing *)
Theorem C13_case_and_prefix_insensitive :
  forall hc cc v l r a b, is_variant v -> bytes_all l -> bytes_all r ->
    parse hc v l None = Ok a -> parse hc v r None = Ok b ->
    compare_with hc cc v (canon_text v l) (canon_text v r) = compare_with hc cc v l r /\
    compare_with hc cc v (canon_text v l) r = compare_with hc cc v l r /\
    compare_with hc cc v l (canon_text v r) = compare_with hc cc v l r.
Proof. exact compare_with_canon. Qed.
Print Assumptions C13_case_and_prefix_insensitive.

(* ... and two accepted strings with the same canonical text are the same hash (C04), so any two spellings
   of the same digits compare alike *)
Theorem C13_same_digits_same_result :
  forall hc cc v l l' r a a', is_variant v -> bytes_all l -> bytes_all l' ->
    parse hc v l None = Ok a -> parse hc v l' None = Ok a' -> canon_text v l = canon_text v l' ->
    compare_with hc cc v l r = compare_with hc cc v l' r /\ compare_with hc cc v r l = compare_with hc cc v r l'.
Proof. exact same_digits_same_result. Qed.
Print Assumptions C13_same_digits_same_result.

Theorem C13_total :
  forall hc cc v l r, is_variant v -> bytes_all l -> bytes_all r ->
    compare_with hc cc v l r <> Panic /\ compare_with hc cc v l r <> UB.
Proof. exact compare_with_total. Qed.
Print Assumptions C13_total.

Example C13_nonvacuous :
  let hc := {| hc_strict := false; hc_dec := DecFull; hc_enc := EncFull; hc_simd_parse := true; hc_simd_convert := true;
               hc_unsafe := false; hc_dbg := true |} in
  let cc := {| cc_len_table := true; cc_q := QTableDouble; cc_body := 4; cc_dbg := true |} in
  let l := [97;50; 49;53; 51;99; 48;49;48;50;48;51;48;52;48;53;48;54;48;55;48;56;48;57;48;97;97;98;102;70] in
  let r := [84;49; 65;50; 49;53; 51;67; 48;49;48;50;48;51;48;52;48;53;48;54;48;55;48;56;48;57;48;65;65;66;70;48] in
  compare_with hc cc V_Short l r = Ok 12 /\ compare_with hc cc V_Short l (r ++ [48]) = Err (SRight, InvalidStringLength) /\
  compare_with hc cc V_Short (71 :: tl l) (r ++ [48]) = Err (SLeft, InvalidCharacter) /\
  canon_text V_Short l = [84;49; 65;50; 49;53; 51;67; 48;49;48;50;48;51;48;52;48;53;48;54;48;55;48;56;48;57;48;65;65;66;70;70].
Proof. vm_compute. repeat split; reflexivity. Qed.
