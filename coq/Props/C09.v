(* C09 -- Length code is a monotone bucketing of the input length, consistent with range().
   This file holds only property statements, each closed by [exact <lemma>], each followed by
   [Print Assumptions].  All are about the table regenerated from /repo (Gen.Tables.top_value). *)
From TlshV Require Import Model.Machine Gen.Tables Model.MLength Spec.SpecLength Proofs.LengthProofs.

(* The reference meaning of a code: the least index whose top value is >= len (0 for len = 0). *)
Definition code (len : N) : option N := code_of len.

(* new(len): for every 32-bit length, under both search strategies (clz-narrowed / whole table),
   with or without the `unsafe` feature and debug assertions: never Panic/UB (every index, the
   slice and the three invariant!s hold), and the result is the least code with len <= top[code]. *)
Theorem C09_encode_spec :
  forall (c : len_cfg) (unsafe_f dbg : bool) (len : N), len < two32 ->
    encode_new c unsafe_f dbg len = Ok (code len).
Proof. exact encode_spec_lemma. Qed.
Print Assumptions C09_encode_spec.

Theorem C09_code_meaning :
  forall len c, len <> 0 -> code len = Some c ->
    (exists t, idx top_value c = Some t /\ len <= t) /\
    (forall j t, j < c -> idx top_value j = Some t -> t < len).
Proof.
  intros len c Hne H. unfold code, code_of in H.
  destruct (N.eqb_spec len 0); [contradiction|]. exact (least_code_Some _ _ _ H).
Qed.
Print Assumptions C09_code_meaning.

(* succeeds exactly up to the maximum, which is 4,224,281,216 *)
Theorem C09_some_iff_le_max :
  forall len, (exists c, code len = Some c) <-> len <= 4224281216.
Proof. exact code_some_iff_lemma. Qed.
Print Assumptions C09_some_iff_le_max.

Theorem C09_monotone :
  forall l1 l2 c1 c2, l1 <= l2 -> code l1 = Some c1 -> code l2 = Some c2 -> c1 <= c2.
Proof. exact encode_monotone_lemma. Qed.
Print Assumptions C09_monotone.

(* range(c) is Some exactly for c < 170 (and never panics there) *)
Theorem C09_range_some_iff :
  forall c, (exists lo hi, range c = Ok (Some (lo, hi))) <-> c < 170.
Proof. exact range_exact_lemma. Qed.
Print Assumptions C09_range_some_iff.

(* the inclusive range of a code contains exactly the lengths that encode to it *)
Theorem C09_range_exact :
  forall c lo hi, range c = Ok (Some (lo, hi)) ->
    forall len, code len = Some c <-> lo <= len <= hi.
Proof. exact range_contains_lemma. Qed.
Print Assumptions C09_range_exact.

(* ranges of 0..169 tile 0..=MAX without gap or overlap; 170..255 have no range *)
Theorem C09_ranges_tile : ranges_tile_b = true.
Proof. exact ranges_tile_lemma. Qed.
Print Assumptions C09_ranges_tile.

Theorem C09_is_valid_iff : forall c, is_valid c = true <-> c < 170.
Proof. exact is_valid_iff. Qed.
Print Assumptions C09_is_valid_iff.

Theorem C09_try_from :
  forall c u d len, len < two32 ->
    try_from_u32 c u d len = match code len with Some v => Ok v | None => Err LengthIsTooLarge end.
Proof. exact try_from_u32_lemma. Qed.
Print Assumptions C09_try_from.

Theorem C09_every_code_below_170 : forall len c, code len = Some c -> c < 170.
Proof. exact code_lt_size. Qed.
Print Assumptions C09_every_code_below_170.

(* Non-vacuity: concrete instances on both sides of each threshold. *)
Example C09_nonvacuous :
  code 0 = Some 0 /\ code 1 = Some 0 /\ code 2 = Some 1 /\ code 4224281216 = Some 169 /\
  code 4224281217 = None /\ range 169 = Ok (Some (3840255617, 4224281216)) /\
  range 0 = Ok (Some (0, 1)) /\ range 170 = Ok None /\
  encode_new LenClz true true 3840255617 = Ok (Some 169).
Proof. vm_compute. repeat split; reflexivity. Qed.
