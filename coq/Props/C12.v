(* C12 -- Stream and file helpers hash exactly the bytes the reader delivered.
   Only property statements, each closed by [exact <lemma>] and followed by [Print Assumptions].
   A reader is the sequence of results of its read calls (end of stream for ever once exhausted);
   [sc_retry sc = true] is the read loop as it is after the "fix:" commit for this property. *)
From TlshV Require Import Model.Machine Gen.Tables Model.MLength Model.MHash Model.MGenerate Model.MFinalize Model.MStream
  Proofs.GenUpdate Proofs.StreamProofs.

(* HEADLINE: whatever sizes of partial reads the reader returns (1 .. buffer size each, so streams of any
   length, larger than the 1 MiB buffer included) and however many transient interruptions it reports,
   hashing the stream gives exactly what hashing the concatenation of the delivered bytes in one buffer
   gives: the same hash or the same generator error *)
Theorem C12_stream_equals_buffer :
  forall sc gc v trace, sc_retry sc = true -> is_variant v ->
    in_contract stream_buffer_size trace = true -> first_hard trace = None ->
    hash_stream sc gc v trace = lift_gen (hash_buf gc v (delivered trace)).
Proof. exact stream_equals_buffer_lemma. Qed.
Print Assumptions C12_stream_equals_buffer.

(* any other I/O error, at any point, is returned as that I/O error and no hash is produced *)
Theorem C12_first_hard_error :
  forall sc gc v trace k, sc_retry sc = true -> is_variant v ->
    in_contract stream_buffer_size trace = true -> first_hard trace = Some k ->
    hash_stream sc gc v trace = Err (SIO k).
Proof. exact first_hard_error_lemma. Qed.
Print Assumptions C12_first_hard_error.

(* hashing a file = hashing the stream of its reads; a path that cannot be opened is the I/O error *)
Theorem C12_file :
  forall sc gc v, (forall k, hash_file sc gc v (inl k) = Err (SIO k)) /\
                  (forall trace, hash_file sc gc v (inr trace) = hash_stream sc gc v trace).
Proof. intros sc gc v. split; intros; reflexivity. Qed.
Print Assumptions C12_file.

(* for ANY sequence of read results the helper returns normally -- or panics, exactly when the reader broke
   the Read contract by claiming more bytes than the buffer holds; never undefined behaviour *)
Theorem C12_stream_total :
  forall gc v trace, is_variant v ->
    hash_stream sc_fixed gc v trace <> UB /\
    (hash_stream sc_fixed gc v trace = Panic -> overclaims stream_buffer_size trace = true).
Proof. exact stream_total_lemma. Qed.
Print Assumptions C12_stream_total.

(* the defect this property exposed in the pinned tree (read loop WITHOUT the retry): a witness on which
   the loop before the fix returns Err(IOError(Interrupted)) while hashing the delivered 300 bytes succeeds,
   and on which the repaired loop returns that hash *)
Theorem C12_refuted_before_fix :
  let gc := {| gc_low_mem := false; gc_double := true; gc_unsafe := false; gc_dbg := true |} in
  in_contract stream_buffer_size interrupted_trace = true /\ first_hard interrupted_trace = None /\
  hash_stream sc_before_fixes gc V_Normal interrupted_trace = Err (SIO io_interrupted) /\
  exists h, hash_buf gc V_Normal (delivered interrupted_trace) = Ok h /\
            hash_stream sc_fixed gc V_Normal interrupted_trace = Ok h.
Proof. exact stream_refuted_before_fix. Qed.
Print Assumptions C12_refuted_before_fix.

Example C12_nonvacuous :
  in_contract stream_buffer_size [RData [1; 2; 3]; RInterrupted; RInterrupted; RData d100; RData []; RHard 6] = true /\
  first_hard [RData [1; 2; 3]; RInterrupted; RInterrupted; RData d100; RData []; RHard 6] = None /\
  delivered [RData [1; 2; 3]; RInterrupted; RInterrupted; RData d100; RData []; RHard 6] = [1; 2; 3] ++ d100 /\
  first_hard [RData d100; RInterrupted; RHard 6; RData d100] = Some 6.
Proof. vm_compute. repeat split; reflexivity. Qed.
