(* C08 -- Distance is reflexive, symmetric and bounded by max_distance; mode and checksum relations.
   Stated on the comparison model ([compare], all configurations and backends) -- each follows from the
   law on the reference distance and C02's refinement theorem. *)
From Coq Require Import Lia.
From TlshV Require Import Model.Machine Gen.Tables Gen.Kernels Model.MLength Model.MHash Model.MLanes Model.MCompare
  Spec.SpecDistance Proofs.HexLists Proofs.HashCodec Proofs.Lanes Proofs.DistSweeps Proofs.Distance Proofs.DistLaws
  Proofs.C08Lemmas.

Theorem C08_reflexive :
  forall c v a m, is_variant v -> hash_okb v a -> @compare unit c a a m = Ok 0.
Proof. exact c08_reflexive. Qed.
Print Assumptions C08_reflexive.

(* in the default mode distance 0 forces equal hashes *)
Theorem C08_zero_only_for_equal :
  forall c v a b, is_variant v -> hash_okb v a -> hash_okb v b ->
    @compare unit c a b CmpDefault = Ok 0 -> a = b.
Proof. exact c08_zero_eq. Qed.
Print Assumptions C08_zero_only_for_equal.

Theorem C08_symmetric :
  forall c v a b m, is_variant v -> hash_okb v a -> hash_okb v b ->
    @compare unit c a b m = @compare unit c b a m.
Proof. exact c08_symmetric. Qed.
Print Assumptions C08_symmetric.

(* never above max_distance (6 per dibit + 1 per checksum byte + 2*7*12 + 128*12 unless NoLength) *)
Theorem C08_bounded :
  forall c v a b m, is_variant v -> hash_okb v a -> hash_okb v b ->
    exists d, @compare unit c a b m = Ok d /\ d <= max_distance v m /\
              max_distance v m = 6 * spec_nb (v_bk v) + v_cks v + 168 + match m with CmpDefault => 1536 | CmpNoLength => 0 end.
Proof. exact c08_bounded. Qed.
Print Assumptions C08_bounded.

(* ... a bound that is attained *)
Theorem C08_max_attained :
  forall c v m, is_variant v ->
    hash_okb v (far_a v) /\ hash_okb v (far_b v) /\ @compare unit c (far_a v) (far_b v) m = Ok (max_distance v m).
Proof. exact c08_max_attained. Qed.
Print Assumptions C08_max_attained.

(* default = no-length + length-code distance, hence never smaller *)
Theorem C08_mode_split :
  forall c v a b, is_variant v -> hash_okb v a -> hash_okb v b ->
    exists d0 dl, @compare unit c a b CmpNoLength = Ok d0 /\ @dist_length unit c (h_len a) (h_len b) = Ok dl /\
                  @compare unit c a b CmpDefault = Ok (d0 + dl).
Proof. exact c08_mode_split. Qed.
Print Assumptions C08_mode_split.

(* clearing both checksums lowers the distance by exactly the number of differing checksum bytes *)
Theorem C08_clear_checksum :
  forall c v a b m, is_variant v -> hash_okb v a -> hash_okb v b ->
    exists d d', @compare unit c a b m = Ok d /\
                 @compare unit c (clear_checksum a) (clear_checksum b) m = Ok d' /\
                 d' + lenN (filter (fun p => negb (fst p =? snd p)) (combine (h_cks a) (h_cks b))) = d.
Proof. exact c08_clear. Qed.
Print Assumptions C08_clear_checksum.

Example C08_nonvacuous :
  is_variant V_NormalLong /\ hash_okb V_NormalLong (far_a V_NormalLong) /\
  spec_distance (far_a V_NormalLong) (far_b V_NormalLong) CmpDefault = 2475 /\
  spec_distance (far_a V_Short) (far_b V_Short) CmpNoLength = 457.
Proof. split; [constructor|]. split; [apply far_ok; constructor|]. vm_compute. split; reflexivity. Qed.
