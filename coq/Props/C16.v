(* C16 -- serde: canonical encodings, lossless round trip, malformed input is an error.
   Only property statements, each closed by [exact <lemma>] and followed by [Print Assumptions].
   A (de)serializer is the data-model event it receives or presents (string / byte string / other);
   [de false ...] is the deserializer as it is after the "fix:" commit for this property. *)
From TlshV Require Import Model.Machine Gen.Tables Model.MLength Model.MHexStr Model.MHash Model.MSerde Spec.SpecHex
  Proofs.HexLists Proofs.HashCodec Proofs.CodecProps Proofs.SerdeProofs.

(* exactly the "T1" hex string in human-readable formats, exactly the binary form as a byte string otherwise *)
Theorem C16_ser_canonical :
  forall c v h, is_variant v -> hash_ok v h ->
    ser c v true h = Ok (VStr (spec_format h PWithVersion)) /\
    ser c v false h = Ok (VBytes (h_cks h ++ [h_len h; h_q h] ++ h_body h)).
Proof. exact ser_canonical. Qed.
Print Assumptions C16_ser_canonical.

(* lossless round trip, both representations, every codec configuration *)
Theorem C16_de_ser :
  forall bug c v hr h, is_variant v -> hash_ok v h -> (hc_strict c = true -> strict_valid v h = true) ->
    exists ev, ser c v hr h = Ok ev /\ de bug c v hr ev = Ok h.
Proof. exact de_ser_lemma. Qed.
Print Assumptions C16_de_ser.

(* accepts exactly what the corresponding parser accepts, with the same value *)
Theorem C16_de_accepts_iff_parser :
  forall c v h,
    (forall s, de false c v true (VStr s) = Ok h <-> parse c v s None = Ok h) /\
    (forall s, de false c v true (VBytes s) = Ok h <-> parse c v s None = Ok h) /\
    (forall b, de false c v false (VBytes b) = Ok h <-> from_slice c v b = Ok h).
Proof. exact de_accepts_iff_parser_lemma. Qed.
Print Assumptions C16_de_accepts_iff_parser.

(* every other document is a deserialization error: wrong type, wrong length, what the parser rejects
   (bad digits, bad prefix; with the strict parser an invalid checksum or length code) *)
Theorem C16_de_errors :
  forall c v,
    (forall k hr, de false c v hr (VOther k) = Err DeInvalidType) /\
    (forall s, de false c v false (VStr s) = Err DeInvalidType) /\
    (forall b, lenN b <> size_in_bytes v -> de false c v false (VBytes b) = Err (DeInvalidLength (lenN b))) /\
    (forall s e, parse c v s None = Err e -> de false c v true (VStr s) = Err (DeCustom e)) /\
    (forall b e, from_slice c v b = Err e -> lenN b = size_in_bytes v -> de false c v false (VBytes b) = Err (DeCustom e)).
Proof. exact de_errors_lemma. Qed.
Print Assumptions C16_de_errors.

(* ... and never a panic or UB *)
Theorem C16_de_total :
  forall c v hr ev, is_variant v ->
    (match ev with VStr s | VBytes s => bytes_all s | VOther _ => True end) ->
    de false c v hr ev <> Panic /\ de false c v hr ev <> UB.
Proof. exact de_total_lemma. Qed.
Print Assumptions C16_de_total.

(* the defect this property exposed in the pinned tree: try_from(v).unwrap() in the bytes visitor panics
   under the strict parser on a right-sized byte string with length code 170 (or Short checksum 49) *)
Theorem C16_refuted_before_fix :
  lenN bad_doc = size_in_bytes V_Normal /\
  de true strict_cfg V_Normal false (VBytes bad_doc) = Panic /\
  de false strict_cfg V_Normal false (VBytes bad_doc) = Err (DeCustom LengthIsTooLarge) /\
  de true strict_cfg V_Short false (VBytes ([49; 0; 0] ++ repeat 0 12)) = Panic.
Proof. exact de_refuted_before_fix. Qed.
Print Assumptions C16_refuted_before_fix.

Example C16_nonvacuous :
  let h := {| h_cks := [0x2a]; h_len := 0x51; h_q := 0xc3; h_body := [1; 2; 3; 4; 5; 6; 7; 8; 9; 10; 171; 255] |} in
  ser strict_cfg V_Short false h = Ok (VBytes [0x2a; 0x51; 0xc3; 1; 2; 3; 4; 5; 6; 7; 8; 9; 10; 171; 255]) /\
  de false strict_cfg V_Short false (VBytes [0x2a; 0x51; 0xc3; 1; 2; 3; 4; 5; 6; 7; 8; 9; 10; 171; 255]) = Ok h /\
  de false strict_cfg V_Short true (VStr [84;49; 65;50; 49;53; 51;67; 48;49;48;50;48;51;48;52;48;53;48;54;48;55;48;56;48;57;48;65;65;66;70;70]) = Ok h /\
  de false strict_cfg V_Short true (VOther 3) = Err DeInvalidType.
Proof. vm_compute. repeat split; reflexivity. Qed.
