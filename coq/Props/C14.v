(* C14 -- Serializers respect the caller's buffer. *)
From TlshV Require Import Model.Machine Model.MLength Model.MHexStr Model.MHash Spec.SpecHex
  Proofs.HexLists Proofs.HashCodec Proofs.CodecProps.

(* hex, with or without prefix, every table / SIMD configuration, every buffer length and content *)
Theorem C14_store_str_respects_buffer :
  forall c v h p buf, is_variant v -> hash_ok v h ->
    (lenN buf < str_len v p -> store_str c v h p buf = (Err BufferIsTooSmall, buf)) /\
    (str_len v p <= lenN buf ->
       fst (store_str c v h p buf) = Ok (str_len v p) /\
       takeN (str_len v p) (snd (store_str c v h p buf)) = spec_format h p /\
       dropN (str_len v p) (snd (store_str c v h p buf)) = dropN (str_len v p) buf /\
       lenN (snd (store_str c v h p buf)) = lenN buf).
Proof. exact store_str_buffer_lemma. Qed.
Print Assumptions C14_store_str_respects_buffer.

Theorem C14_store_bytes_respects_buffer :
  forall v h buf, is_variant v -> hash_ok v h ->
    (lenN buf < size_in_bytes v -> store_bytes v h buf = (Err BufferIsTooSmall, buf)) /\
    (size_in_bytes v <= lenN buf ->
       fst (store_bytes v h buf) = Ok (size_in_bytes v) /\
       takeN (size_in_bytes v) (snd (store_bytes v h buf)) = spec_bytes h /\
       dropN (size_in_bytes v) (snd (store_bytes v h buf)) = dropN (size_in_bytes v) buf /\
       lenN (snd (store_bytes v h buf)) = lenN buf).
Proof. exact store_bytes_buffer_lemma. Qed.
Print Assumptions C14_store_bytes_respects_buffer.

(* no slice or assert inside the serializers can fire *)
Theorem C14_store_total :
  forall c v h p buf, is_variant v -> hash_ok v h ->
    (exists n, fst (store_str c v h p buf) = Ok n) \/ fst (store_str c v h p buf) = Err BufferIsTooSmall.
Proof. exact store_total_lemma. Qed.
Print Assumptions C14_store_total.

(* the advertised sizes *)
Theorem C14_sizes :
  forall v, is_variant v ->
    size_in_bytes v = v_cks v + 2 + spec_nb (v_bk v) / 4 /\
    str_len v PWithVersion = 2 * size_in_bytes v + 2 /\ str_len v PEmpty = 2 * size_in_bytes v.
Proof. intros v H; destruct H; vm_compute; repeat split; reflexivity. Qed.
Print Assumptions C14_sizes.

Definition c14_cfg : hcfg :=
  {| hc_strict := false; hc_dec := DecFull; hc_enc := EncHalf; hc_simd_parse := true;
     hc_simd_convert := true; hc_unsafe := false; hc_dbg := true |}.
Example C14_nonvacuous :
  let h := {| h_cks := [9]; h_len := 1; h_q := 2; h_body := repeat 3 12 |} in
  store_str c14_cfg V_Short h PEmpty (repeat 7 29) = (Err BufferIsTooSmall, repeat 7 29) /\
  snd (store_str c14_cfg V_Short h PEmpty (repeat 7 33))
    = [57;48; 49;48; 50;48] ++ flat_map (fun _ => [48; 51]) (repeat 0 12) ++ [7; 7; 7] /\
  store_bytes V_Short h (repeat 7 14) = (Err BufferIsTooSmall, repeat 7 14).
Proof. vm_compute. repeat split; reflexivity. Qed.
