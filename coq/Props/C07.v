(* C07 -- Results do not depend on feature configuration or SIMD backend.  PARTIAL (see DESIGN.md): the
   atomicity of std's OnceLock and the truthfulness of is_x86_feature_detected! are std's; everything
   the model can carry is proved: every optimisation-only alternative is extensionally equal.
   Only property statements, each closed by [exact <lemma>] and followed by [Print Assumptions]. *)
From TlshV Require Import Model.Machine Gen.Tables Gen.Kernels Gen.AggKernels Model.MLength Model.MHexStr Model.MHash
  Model.MGenerate Model.MFinalize Model.MLanes Model.MCompare Model.MAgg Spec.SpecHex Spec.SpecGenerate Spec.SpecDistance
  Proofs.HexLists Proofs.HashCodec Proofs.LengthProofs Proofs.GenUpdate Proofs.FinalizeChar Proofs.GenProps Proofs.Select Proofs.Distance
  Proofs.ConfigIndep Proofs.AggSweeps Proofs.AggSweepAvx2 Proofs.AggProofs.

(* HEADLINE.  Two configurations agreeing on parser strictness (the only non-optimisation switch that changes
   results) give bit-identical results for parsing, formatting, generation and comparison on every input:
     hcfg = hex decode table full/half/quarter/min x encode table full/half/min x hex-simd parse/convert x unsafe x debug;
     gcfg = 256-slot / low-memory buckets x Pearson double table x unsafe x debug (+ any std-conforming selection);
     ccfg = length table x Q-ratio naive/16x16/256x256 table x body backend pseudo32/pseudo64/SSE2/SSE4.1/AVX2 x debug;
     len_cfg = clz-narrowed / whole-table binary search. *)
Theorem C07_config_independent :
  (forall c1 c2 v s m, is_variant v -> bytes_all s -> hc_strict c1 = hc_strict c2 -> parse c1 v s m = parse c2 v s m) /\
  (forall c1 c2 v b, hc_strict c1 = hc_strict c2 -> from_slice c1 v b = from_slice c2 v b) /\
  (forall c1 c2 v h p out, is_variant v -> hash_okb v h ->
     store_str c1 v h p out = store_str c2 v h p out /\ display c1 v h = display c2 v h) /\
  (forall sel1 sel2 gc1 gc2 v o pieces, sel_contract sel1 -> sel_contract sel2 -> is_variant v ->
     (do s <- @update_all gen_error gc1 v (g_init gc1 v) pieces; finalize sel1 gc1 v o s) =
     (do s <- @update_all gen_error gc2 v (g_init gc2 v) pieces; finalize sel2 gc2 v o s)) /\
  (forall c1 c2 v a b m, is_variant v -> hash_okb v a -> hash_okb v b -> @compare unit c1 a b m = @compare unit c2 a b m) /\
  (forall c1 c2 u1 u2 d1 d2 len, len < two32 -> encode_new c1 u1 d1 len = encode_new c2 u2 d2 len).
Proof.
  exact (conj parse_config_independent (conj from_slice_config_independent (conj format_config_independent
        (conj generate_config_independent (conj compare_config_independent encode_config_independent))))).
Qed.
Print Assumptions C07_config_independent.

(* every body-distance backend (kernels regenerated from the source) equals the reference on the three body sizes *)
Theorem C07_body_backends :
  forall c a b, (length a = 12 \/ length a = 32 \/ length a = 64)%nat -> length b = length a ->
    bytes_all a -> bytes_all b -> dist_body c a b = body_dist a b.
Proof. exact dist_body_spec. Qed.
Print Assumptions C07_body_backends.

(* the unsigned-compare idiom of the aggregation kernels: a signed compare after flipping both sign bits *)
Theorem C07_cmpgt_idiom :
  forall b q, b < 4294967296 -> q < 4294967296 -> sgt32 (N.lxor b two31) (N.lxor q two31) = (q <? b).
Proof. exact cmpgt_idiom. Qed.
Print Assumptions C07_cmpgt_idiom.

(* exhaustive: each aggregation kernel regenerated from the source, on every vector of per-lane outcomes
   (4^4 x all 256 sign patterns of the undefined operand for SSE2/SSSE3; 4^8 for AVX2), returns the dibit byte(s) *)
Theorem C07_aggregation_kernels_checked :
  agg4_ok agg_sse2_prog agg_sse2_results = true /\ agg4_ok agg_ssse3_prog agg_ssse3_results = true /\
  agg8_ok agg_avx2_prog agg_avx2_results = true.
Proof. exact (conj agg_sse2_ok (conj agg_ssse3_ok agg_avx2_ok)). Qed.
Print Assumptions C07_aggregation_kernels_checked.

(* every aggregation backend = the naive one = the reference body, for all buckets and ordered quartiles, whatever
   the undefined operand of the SSE2 version contains *)
Theorem C07_aggregation_backends :
  forall (be : agg_backend) u dbg body_size buckets q1 q2 q3,
    u < 256 -> q1 <= q2 -> q2 <= q3 -> lenN buckets = 4 * body_size -> body_size mod 2 = 0 ->
    @aggregate_by gen_error be u dbg body_size buckets q1 q2 q3 = Ok (spec_body q1 q2 q3 buckets) /\
    @aggregate_by gen_error be u dbg body_size buckets q1 q2 q3 = aggregate_naive dbg body_size buckets q1 q2 q3.
Proof. exact (@aggregate_any_backend gen_error). Qed.
Print Assumptions C07_aggregation_backends.

(* ... and finalize only ever aggregates with ordered quartiles: whichever backend runs, the body is the one in the
   hash finalize returns *)
Theorem C07_finalize_backend_independent :
  forall sel gc v o s h, sel_contract sel -> is_variant v -> reachable gc v s -> finalize sel gc v o s = Ok h ->
    let buckets := takeN (nb_of (v_bk v)) (g_buckets s) in
    exists q1 q2 q3, gate_q3 o (kq (nb_of (v_bk v)) buckets) = Ok (q1, q2, q3) /\ q1 <= q2 /\ q2 <= q3 /\
      forall (be : agg_backend) u dbg, u < 256 ->
        @aggregate_by gen_error be u dbg (size_body v) buckets q1 q2 q3 = Ok (h_body h).
Proof. exact finalize_backend_independent. Qed.
Print Assumptions C07_finalize_backend_independent.

(* first-call race: whichever thread's detection closure wins the once-cell, the stored function is one of the
   compiled backends; every call -- from any thread, in any interleaving -- then returns the same value *)
Theorem C07_dispatch_any_winner :
  forall (winner_body : N) (winner_agg : agg_backend) c a b,
    (length a = 12 \/ length a = 32 \/ length a = 64)%nat -> length b = length a -> bytes_all a -> bytes_all b ->
    dist_body {| cc_len_table := cc_len_table c; cc_q := cc_q c; cc_body := winner_body; cc_dbg := cc_dbg c |} a b = body_dist a b.
Proof. intros wb wa c a b. apply dist_body_spec. Qed.
Print Assumptions C07_dispatch_any_winner.

Example C07_nonvacuous :
  @aggregate_by unit 1 170 true 1 [5; 4294967295; 0; 2147483648] 3 5 2147483648 = Ok [0x8D] /\
  @aggregate_by unit 3 0 true 2 [5; 4294967295; 0; 2147483648; 1; 2; 3; 4] 3 5 2147483648 = Ok [0x40; 0x8D] /\
  @aggregate_by unit 0 0 true 2 [5; 4294967295; 0; 2147483648; 1; 2; 3; 4] 3 5 2147483648 = Ok [0x40; 0x8D].
Proof. vm_compute. repeat split; reflexivity. Qed.
