(* C03 -- Hash is independent of how the input is chunked, finalized or cloned. *)
From TlshV Require Import Model.Machine Model.MLength Model.MHash Model.MGenerate Model.MFinalize
  Proofs.GenUpdate Proofs.GenLen Proofs.Select Proofs.Finalize Proofs.FinalizeChar Proofs.GenProps.

(* every reachable state meets the representation invariant (tail has 4 slots, tail_len <= 4,
   len <= 2^32-4, checksum / bucket arrays of the variant's sizes) *)
Theorem C03_invariant :
  forall gc v data, is_variant v -> ginv gc v (feed gc v (g_init gc v) data).
Proof. intros gc v data Hv. apply feed_inv. apply init_inv. exact Hv. Qed.
Print Assumptions C03_invariant.

(* one update call = feeding its bytes one at a time (prologue / bulk loop / tail rewrite / early
   return / clamp / truncation are all covered), and it never panics *)
Theorem C03_update_is_bytewise :
  forall gc v s data, ginv gc v s -> @update unit gc v s data = Ok (feed gc v s data).
Proof. intros. apply update_feed. assumption. Qed.
Print Assumptions C03_update_is_bytewise.

Theorem C03_update_app :
  forall gc v s a b, ginv gc v s ->
    (do s1 <- @update unit gc v s a; update gc v s1 b) = update gc v s (a ++ b).
Proof. intros. apply update_app. assumption. Qed.
Print Assumptions C03_update_app.

(* any split into successive update calls (empty and 1-3 byte pieces included) ends in the same
   state -- hence the same processed_len and the same finalize under every option setting *)
Theorem C03_chunking_irrelevant :
  forall gc v pieces s, ginv gc v s ->
    @update_all unit gc v s pieces = update gc v s (concat pieces).
Proof. intros gc v pieces s H. apply (chunking_irrelevant gc v pieces s H). Qed.
Print Assumptions C03_chunking_irrelevant.

(* histories over update / read-only observation (finalize with any options, processed_len) /
   clone / drop / swap on a stack of generators: every observed generator is in exactly the state
   of a fresh generator fed the bytes that instance has seen *)
Theorem C03_history_observations :
  forall gc v ops, is_variant v -> forall seen_stack seen_obs,
    hrun gc v ops (map (fresh gc v) seen_stack) (map (fresh gc v) seen_obs) =
    Ok (map (fresh gc v) (fst (href ops seen_stack seen_obs)),
        map (fresh gc v) (snd (href ops seen_stack seen_obs))).
Proof. exact history_observations. Qed.
Print Assumptions C03_history_observations.

(* finalize is a function of the state alone, whatever conforming selection std uses *)
Theorem C03_finalize_function_of_state :
  forall sel sel' gc v o s, sel_contract sel -> sel_contract sel' -> is_variant v -> reachable gc v s ->
    finalize sel gc v o s = finalize sel' gc v o s.
Proof. intros. rewrite !finalize_reachable by assumption. reflexivity. Qed.
Print Assumptions C03_finalize_function_of_state.

Definition c03_gc := {| gc_low_mem := false; gc_double := true; gc_unsafe := false; gc_dbg := true |}.
Example C03_nonvacuous :
  let d := map N.of_nat (seq 0 23) in
  @update_all unit c03_gc V_Short (g_init c03_gc V_Short) [firstn 3 d; []; firstn 1 (skipn 3 d); skipn 4 d]
    = @update unit c03_gc V_Short (g_init c03_gc V_Short) d /\
  exists s, @update unit c03_gc V_Short (g_init c03_gc V_Short) d = Ok s /\ g_len s = 19 /\ g_tail s = [19; 20; 21; 22].
Proof. vm_compute. split; [reflexivity|]. eexists. repeat split. Qed.
