(* C01 -- Generated hashes equal the TLSH reference algorithm for every input. *)
From Coq Require Import Permutation.
From TlshV Require Import Model.Machine Gen.Tables Model.MLength Model.MHash Model.MPearson Model.MGenerate
  Model.MFinalize Spec.SpecTables Spec.SpecLength Spec.SpecGenerate
  Proofs.GenUpdate Proofs.GenLen Proofs.Select Proofs.Finalize Proofs.FinalizeChar Proofs.GenProps
  Proofs.Refine Proofs.SpecSanity.

(* everything that is data in the source (re-read on this run) equals the reference's own copy *)
Theorem C01_tables_match :
  subst_table = v_table /\ top_value = topval /\ Permutation bucket_triplets spec_triplets /\
  checksum_args = (4, 3) /\ pearson_initial_state = 0 /\ window_size = 5 /\ len_max = spec_max_len /\
  (forall bk, len_min bk = spec_min bk /\ len_min_conservative bk = spec_min_conservative bk /\
              min_nonzero bk = spec_min_nonzero bk /\ nb_of bk = spec_nb bk).
Proof.
  split; [exact subst_table_is_v_table|]. split; [exact top_value_is_topval|].
  split; [exact triplets_are_spec|]. split; [exact checksum_args_are_spec|].
  destruct constants_are_spec as [H1 [H2 [H3 H4]]]. repeat split; auto; apply H4.
Qed.
Print Assumptions C01_tables_match.

(* HEADLINE.  For every byte string fed in any pieces, every variant, every option setting, every
   generator configuration (bucket layout, Pearson double table, unsafe, debug assertions) and every
   selection function meeting std's select_nth_unstable contract: finalize returns exactly what the
   reference returns -- the same hash or the same specific rejection -- for every length, including
   more than 4,224,281,216 and more than 2^32 bytes; and nothing on the way panics. *)
Theorem C01_gen_refines_reference :
  forall sel gc v o pieces, sel_contract sel -> is_variant v ->
    (do s <- @update_all gen_error gc v (g_init gc v) pieces; finalize sel gc v o s)
    = match spec_tlsh v o (concat pieces) with inl h => Ok h | inr e => Err e end.
Proof. exact gen_refines_reference. Qed.
Print Assumptions C01_gen_refines_reference.

(* the three nested selections return the three order statistics, whatever conforming selection std uses *)
Theorem C01_quartiles_by_any_select :
  forall sel l k2 k1, sel_contract sel -> (k2 < length l)%nat -> (k1 < k2)%nat -> (k2 + 1 + k1 < length l)%nat ->
    let l' := sel l k2 in
    nth k2 l' 0 = kth l k2 /\
    nth k1 (sel (firstn k2 l') k1) 0 = kth l k1 /\
    nth k1 (sel (skipn (S k2) l') k1) 0 = kth l (k2 + 1 + k1).
Proof.
  intros sel l k2 k1 Hs H1 H2 H3. destruct (nested_selection sel l k2 k1 Hs H1 H2 H3) as [A [B [C _]]]. auto.
Qed.
Print Assumptions C01_quartiles_by_any_select.

(* the executable selection used by the model driver meets the contract *)
Theorem C01_executable_select_conforms : sel_contract sel_sort.
Proof. exact sel_sort_contract. Qed.
Print Assumptions C01_executable_select_conforms.

(* effective bucket k of a generator fed d = number of (window, triplet) pairs mapped to k, mod 2^32
   (so counts past 2^31 and 2^32 wrap exactly as the reference's 32-bit counters do) *)
Theorem C01_buckets_are_reference_counts :
  forall gc v d, is_variant v -> lenN d <= 4294967296 ->
    takeN (nb_of (v_bk v)) (g_buckets (fresh gc v d)) = spec_counts (v_bk v) d /\
    g_cks (fresh gc v d) = spec_checksum v d.
Proof.
  intros gc v d Hv Hl. split; [apply fresh_buckets_spec|apply fresh_checksum_spec]; auto.
Qed.
Print Assumptions C01_buckets_are_reference_counts.

(* the length code carried by a generated hash is the code of the number of bytes fed (C09's last clause) *)
Theorem C01_generated_length_code :
  forall v o d h, spec_tlsh v o d = inl h -> spec_len_code (N.of_nat (length d)) = Some (h_len h).
Proof.
  intros v o d h. unfold spec_tlsh.
  destruct (spec_max_len <? _); [discriminate|]. destruct (_ && _); [discriminate|].
  destruct (spec_quartiles _ _) as [[q1 q2] q3]. destruct (_ && _); [discriminate|].
  destruct (if q3 =? 0 then _ else _) as [[a b] c]. destruct (_ && _); [discriminate|].
  destruct (spec_len_code _) as [lv|]; [|discriminate]. intros H; injection H as <-. reflexivity.
Qed.
Print Assumptions C01_generated_length_code.

(* Non-vacuity / validation of the reference: known answers of the official implementation are
   Examples in Proofs/SpecSanity.v (Lorem ipsum x 5 variants x {int, f32}, four documented vectors,
   the documented rejections); one of them through the model: *)
Definition c01_gc := {| gc_low_mem := true; gc_double := false; gc_unsafe := true; gc_dbg := true |}.
Example C01_nonvacuous :
  (do s <- @update_all gen_error c01_gc V_Short (g_init c01_gc V_Short) [firstn 100 lorem_ipsum; skipn 100 lorem_ipsum];
   finalize sel_sort c01_gc V_Short o_default s)
  = match spec_tlsh V_Short o_default lorem_ipsum with inl h => Ok h | inr e => Err e end
  /\ exists h, spec_tlsh V_Short o_default lorem_ipsum = inl h.
Proof. vm_compute. split; [reflexivity|eexists; reflexivity]. Qed.
