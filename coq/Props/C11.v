(* C11 -- Oversized and >4 GiB inputs are rejected cleanly; fed length reported exactly. *)
From TlshV Require Import Model.Machine Gen.Tables Model.MLength Model.MHash Model.MGenerate Model.MFinalize
  Proofs.LengthProofs Proofs.GenUpdate Proofs.GenLen Proofs.Select Proofs.Finalize Proofs.FinalizeChar Proofs.GenProps Proofs.GenTotal.

(* for any amount of data in any chunking: every update returns normally (no slice, copy, index or
   checked `+=` fails), and no counter wraps: len <= 2^32-4, tail_len <= 4 *)
Theorem C11_update_never_panics :
  forall gc v pieces, is_variant v ->
    @update_all unit gc v (g_init gc v) pieces = Ok (fresh gc v (concat pieces)) /\
    g_len (fresh gc v (concat pieces)) <= 4294967292 /\ g_tail_len (fresh gc v (concat pieces)) <= 4.
Proof.
  intros gc v pieces Hv. split.
  - apply (chunking_irrelevant gc v pieces _ (init_inv gc v Hv)).
  - apply counters_bounded. exact Hv.
Qed.
Print Assumptions C11_update_never_panics.

(* processed_len: exact below 2^32 bytes, unknown from 2^32 bytes on *)
Theorem C11_processed_len_exact :
  forall gc v data, is_variant v ->
    processed_len (fresh gc v data) = if lenN data <? 4294967296 then Some (lenN data) else None.
Proof. exact processed_len_exact. Qed.
Print Assumptions C11_processed_len_exact.

(* finalize: TooLargeInput exactly when more than 4,224,281,216 bytes were fed; never a panic *)
Theorem C11_too_large_iff :
  forall sel gc v o data, sel_contract sel -> is_variant v ->
    (finalize sel gc v o (fresh gc v data) = Err TooLargeInput <-> 4224281216 < lenN data).
Proof.
  intros sel gc v o data Hs Hv. rewrite finalize_reachable by (assumption || (exists data; reflexivity)).
  apply too_large_iff_value. exact Hv.
Qed.
Print Assumptions C11_too_large_iff.

Theorem C11_finalize_never_panics :
  forall sel gc v o data, sel_contract sel -> is_variant v ->
    finalize sel gc v o (fresh gc v data) <> Panic /\ finalize sel gc v o (fresh gc v data) <> UB.
Proof. exact finalize_never_panics_lemma. Qed.
Print Assumptions C11_finalize_never_panics.

(* with exactly MAX bytes the length code is 169 (on success the hash carries it: finalize_value) *)
Theorem C11_code_at_max : code_of 4224281216 = Some 169 /\ code_of 4224281217 = None.
Proof. vm_compute. split; reflexivity. Qed.
Print Assumptions C11_code_at_max.

Example C11_nonvacuous :
  validity_new B128 4224281216 = Valid /\ validity_new B128 4224281217 = TooLarge /\
  processed_len {| g_buckets := []; g_len := 4294967292; g_cks := [0]; g_tail := [0;0;0;0]; g_tail_len := 4 |} = None /\
  processed_len {| g_buckets := []; g_len := 4294967291; g_cks := [0]; g_tail := [0;0;0;0]; g_tail_len := 4 |} = Some 4294967295.
Proof. vm_compute. repeat split; reflexivity. Qed.
