//! Verification harness: runs the implementation (/repo, current working tree) on case files.
//!
//! Usage: verif-harness run <casefile>      one output line per input line
//!        verif-harness dump                compiled constants (translator cross-check)
//!        verif-harness lenrle              run-length encoding of new(len) over all 2^32 lengths
//!
//! Line format (shared with the OCaml driver of the extracted Coq model):
//!   tokens separated by single spaces; a token is a decimal number, `x<hex>` (byte string,
//!   `x` alone = empty) or a bare symbol.  The first token is the operation.
//! Panics are caught and printed as `PANIC`.

use std::io::{BufRead, Write};
use std::panic::{catch_unwind, AssertUnwindSafe};

mod alloc_count;
mod ops;

#[global_allocator]
static GLOBAL: alloc_count::Counting = alloc_count::Counting;
#[cfg(feature = "serde-suite")]
mod ops_serde;

pub enum Tok {
    N(u64),
    B(Vec<u8>),
    S(String),
}

pub fn parse_line(line: &str) -> Vec<Tok> {
    line.split(' ')
        .filter(|t| !t.is_empty())
        .map(|t| {
            if let Some(h) = t.strip_prefix('x') {
                if h.len() % 2 == 0 && h.bytes().all(|c| c.is_ascii_hexdigit()) {
                    let b = (0..h.len() / 2)
                        .map(|i| u8::from_str_radix(&h[2 * i..2 * i + 2], 16).unwrap())
                        .collect();
                    return Tok::B(b);
                }
            }
            if t.bytes().all(|c| c.is_ascii_digit()) {
                if let Ok(n) = t.parse::<u64>() {
                    return Tok::N(n);
                }
            }
            Tok::S(t.to_string())
        })
        .collect()
}

pub fn hex(b: &[u8]) -> String {
    let mut s = String::with_capacity(1 + b.len() * 2);
    s.push('x');
    for x in b {
        s.push_str(&format!("{:02x}", x));
    }
    s
}

fn main() {
    let args: Vec<String> = std::env::args().collect();
    if args.len() < 2 {
        eprintln!("usage: verif-harness run <file> | dump | lenrle");
        std::process::exit(2);
    }
    // silence the default panic message (we print PANIC ourselves)
    std::panic::set_hook(Box::new(|_| {}));
    match args[1].as_str() {
        "run" => {
            let f = std::fs::File::open(&args[2]).expect("open case file");
            let out = std::io::stdout();
            let mut out = std::io::BufWriter::new(out.lock());
            for line in std::io::BufReader::new(f).lines() {
                let line = line.unwrap();
                let toks = parse_line(&line);
                let r = catch_unwind(AssertUnwindSafe(|| ops::dispatch(&toks)));
                alloc_count::off();
                match r {
                    Ok(s) => writeln!(out, "{}", s).unwrap(),
                    Err(e) => {
                        let msg = if let Some(s) = e.downcast_ref::<&str>() {
                            s.to_string()
                        } else if let Some(s) = e.downcast_ref::<String>() {
                            s.clone()
                        } else {
                            String::new()
                        };
                        // the panic message is informational only (after `#`)
                        writeln!(out, "PANIC # {}", msg.replace('\n', " ")).unwrap()
                    }
                }
            }
        }
        "dump" => {
            let mut f = |name: &str, vals: &[u64]| {
                let v: Vec<String> = vals.iter().map(|x| x.to_string()).collect();
                println!("{} {}", name, v.join(" "));
            };
            tlsh::verif::dump_constants(&mut f);
        }
        "lenrle" => ops::len_rle(),
        _ => {
            eprintln!("unknown command");
            std::process::exit(2);
        }
    }
}
