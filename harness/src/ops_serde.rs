//! SERDE suite operations (feature `serde-suite`): serde_json / ciborium / postcard, and a scripted
//! mock Serializer / Deserializer that issues any visitor event under either `is_human_readable`.

use crate::{hex, Tok};
use serde::de::{self, Visitor};
use serde::ser;
use serde::{Deserialize, Serialize};
use std::fmt;
use tlsh::FuzzyHashType;

fn n(t: &[Tok], i: usize) -> u64 {
    match t.get(i) {
        Some(Tok::N(x)) => *x,
        _ => panic!("HARNESS: expected number at {}", i),
    }
}
fn b(t: &[Tok], i: usize) -> &[u8] {
    match t.get(i) {
        Some(Tok::B(x)) => x,
        _ => panic!("HARNESS: expected bytes at {}", i),
    }
}
fn s(t: &[Tok], i: usize) -> &str {
    match t.get(i) {
        Some(Tok::S(x)) => x,
        _ => panic!("HARNESS: expected symbol at {}", i),
    }
}

macro_rules! for_variant {
    ($v:expr, $T:ident, $body:block) => {
        match $v {
            "S" => {
                type $T = tlsh::hashes::Short;
                $body
            }
            "N" => {
                type $T = tlsh::hashes::Normal;
                $body
            }
            "NL" => {
                type $T = tlsh::hashes::NormalWithLongChecksum;
                $body
            }
            "L" => {
                type $T = tlsh::hashes::Long;
                $body
            }
            "LL" => {
                type $T = tlsh::hashes::LongWithLongChecksum;
                $body
            }
            _ => panic!("HARNESS: bad variant"),
        }
    };
}

fn bin_of<T: FuzzyHashType>(h: &T) -> String {
    let mut buf = vec![0u8; T::SIZE_IN_BYTES];
    h.store_into_bytes(&mut buf).unwrap();
    hex(&buf)
}

// ------------------------------------------------------------------------------------------ mock

#[derive(Debug)]
enum MockError {
    Custom(String),
    InvalidType,
    InvalidLength(usize),
    Other(String),
}
impl fmt::Display for MockError {
    fn fmt(&self, f: &mut fmt::Formatter) -> fmt::Result {
        write!(f, "{:?}", self)
    }
}
impl std::error::Error for MockError {}
impl de::Error for MockError {
    fn custom<T: fmt::Display>(msg: T) -> Self {
        MockError::Custom(msg.to_string())
    }
    fn invalid_type(_unexp: de::Unexpected, _exp: &dyn de::Expected) -> Self {
        MockError::InvalidType
    }
    fn invalid_length(len: usize, _exp: &dyn de::Expected) -> Self {
        MockError::InvalidLength(len)
    }
}
impl ser::Error for MockError {
    fn custom<T: fmt::Display>(msg: T) -> Self {
        MockError::Other(msg.to_string())
    }
}

/// Which visitor method the mock deserializer calls, with its payload.
struct MockDe<'a> {
    human_readable: bool,
    kind: &'a str,
    payload: &'a [u8],
    /// which deserialize_* hint the type under test asked for (recorded)
    asked: std::cell::RefCell<String>,
}

impl<'a> MockDe<'a> {
    fn fire<V: Visitor<'a>>(&self, asked: &str, visitor: V) -> Result<V::Value, MockError> {
        *self.asked.borrow_mut() = asked.to_string();
        let p = self.payload;
        match self.kind {
            "str" => visitor.visit_str(std::str::from_utf8(p).expect("HARNESS: utf8")),
            "string" => visitor.visit_string(String::from_utf8(p.to_vec()).expect("HARNESS: utf8")),
            "char" => visitor.visit_char(p[0] as char),
            "bytes" => visitor.visit_bytes(p),
            "bytebuf" => visitor.visit_byte_buf(p.to_vec()),
            // borrowed events (zero-copy formats hand out data living as long as the input)
            "bstr" => visitor.visit_borrowed_str(std::str::from_utf8(p).expect("HARNESS: utf8")),
            "bbytes" => visitor.visit_borrowed_bytes(p),
            // a sequence of u8 (how some formats present byte arrays), a newtype wrapper and Some(..) around a string
            "seq" => visitor.visit_seq(de::value::SeqDeserializer::<_, MockError>::new(p.iter().copied())),
            "newtype" => visitor.visit_newtype_struct(de::value::StrDeserializer::<MockError>::new(std::str::from_utf8(p).unwrap_or("?"))),
            "some" => visitor.visit_some(de::value::StrDeserializer::<MockError>::new(std::str::from_utf8(p).unwrap_or("?"))),
            "u8" => visitor.visit_u8(p.first().copied().unwrap_or(0)),
            "u64" => visitor.visit_u64(p.len() as u64),
            "i64" => visitor.visit_i64(-(p.len() as i64)),
            "f64" => visitor.visit_f64(p.len() as f64),
            "bool" => visitor.visit_bool(p.is_empty()),
            "unit" => visitor.visit_unit(),
            "none" => visitor.visit_none(),
            _ => panic!("HARNESS: bad mock kind"),
        }
    }
}

macro_rules! forward {
    ($($name:ident)*) => {
        $(fn $name<V: Visitor<'de>>(self, visitor: V) -> Result<V::Value, MockError> {
            self.fire(stringify!($name), visitor)
        })*
    };
}

impl<'de> de::Deserializer<'de> for &'de MockDe<'de> {
    type Error = MockError;
    forward! { deserialize_any deserialize_bool deserialize_i8 deserialize_i16 deserialize_i32 deserialize_i64
               deserialize_u8 deserialize_u16 deserialize_u32 deserialize_u64 deserialize_f32 deserialize_f64
               deserialize_char deserialize_str deserialize_string deserialize_bytes deserialize_byte_buf
               deserialize_option deserialize_unit deserialize_seq deserialize_map deserialize_identifier
               deserialize_ignored_any }
    fn deserialize_unit_struct<V: Visitor<'de>>(self, _n: &'static str, v: V) -> Result<V::Value, MockError> {
        self.fire("deserialize_unit_struct", v)
    }
    fn deserialize_newtype_struct<V: Visitor<'de>>(self, _n: &'static str, v: V) -> Result<V::Value, MockError> {
        self.fire("deserialize_newtype_struct", v)
    }
    fn deserialize_tuple<V: Visitor<'de>>(self, _l: usize, v: V) -> Result<V::Value, MockError> {
        self.fire("deserialize_tuple", v)
    }
    fn deserialize_tuple_struct<V: Visitor<'de>>(self, _n: &'static str, _l: usize, v: V) -> Result<V::Value, MockError> {
        self.fire("deserialize_tuple_struct", v)
    }
    fn deserialize_struct<V: Visitor<'de>>(
        self,
        _n: &'static str,
        _f: &'static [&'static str],
        v: V,
    ) -> Result<V::Value, MockError> {
        self.fire("deserialize_struct", v)
    }
    fn deserialize_enum<V: Visitor<'de>>(
        self,
        _n: &'static str,
        _f: &'static [&'static str],
        v: V,
    ) -> Result<V::Value, MockError> {
        self.fire("deserialize_enum", v)
    }
    fn is_human_readable(&self) -> bool {
        self.human_readable
    }
}

/// Records the single event a Serialize impl emits.
struct MockSer {
    human_readable: bool,
}
macro_rules! ser_other {
    ($($name:ident : $ty:ty),*) => {
        $(fn $name(self, _v: $ty) -> Result<String, MockError> { Ok(concat!("other ", stringify!($name)).to_string()) })*
    };
}
impl ser::Serializer for MockSer {
    type Ok = String;
    type Error = MockError;
    type SerializeSeq = ser::Impossible<String, MockError>;
    type SerializeTuple = ser::Impossible<String, MockError>;
    type SerializeTupleStruct = ser::Impossible<String, MockError>;
    type SerializeTupleVariant = ser::Impossible<String, MockError>;
    type SerializeMap = ser::Impossible<String, MockError>;
    type SerializeStruct = ser::Impossible<String, MockError>;
    type SerializeStructVariant = ser::Impossible<String, MockError>;
    fn serialize_str(self, v: &str) -> Result<String, MockError> {
        Ok(format!("str {}", hex(v.as_bytes())))
    }
    fn serialize_bytes(self, v: &[u8]) -> Result<String, MockError> {
        Ok(format!("bytes {}", hex(v)))
    }
    ser_other! { serialize_bool: bool, serialize_i8: i8, serialize_i16: i16, serialize_i32: i32, serialize_i64: i64,
                 serialize_u8: u8, serialize_u16: u16, serialize_u32: u32, serialize_u64: u64, serialize_f32: f32,
                 serialize_f64: f64, serialize_char: char }
    fn serialize_none(self) -> Result<String, MockError> {
        Ok("other none".into())
    }
    fn serialize_some<T: ?Sized + Serialize>(self, _v: &T) -> Result<String, MockError> {
        Ok("other some".into())
    }
    fn serialize_unit(self) -> Result<String, MockError> {
        Ok("other unit".into())
    }
    fn serialize_unit_struct(self, _n: &'static str) -> Result<String, MockError> {
        Ok("other unit_struct".into())
    }
    fn serialize_unit_variant(self, _n: &'static str, _i: u32, _v: &'static str) -> Result<String, MockError> {
        Ok("other unit_variant".into())
    }
    fn serialize_newtype_struct<T: ?Sized + Serialize>(self, _n: &'static str, _v: &T) -> Result<String, MockError> {
        Ok("other newtype_struct".into())
    }
    fn serialize_newtype_variant<T: ?Sized + Serialize>(
        self,
        _n: &'static str,
        _i: u32,
        _v: &'static str,
        _x: &T,
    ) -> Result<String, MockError> {
        Ok("other newtype_variant".into())
    }
    fn serialize_seq(self, _l: Option<usize>) -> Result<Self::SerializeSeq, MockError> {
        Err(MockError::Other("seq".into()))
    }
    fn serialize_tuple(self, _l: usize) -> Result<Self::SerializeTuple, MockError> {
        Err(MockError::Other("tuple".into()))
    }
    fn serialize_tuple_struct(self, _n: &'static str, _l: usize) -> Result<Self::SerializeTupleStruct, MockError> {
        Err(MockError::Other("tuple_struct".into()))
    }
    fn serialize_tuple_variant(
        self,
        _n: &'static str,
        _i: u32,
        _v: &'static str,
        _l: usize,
    ) -> Result<Self::SerializeTupleVariant, MockError> {
        Err(MockError::Other("tuple_variant".into()))
    }
    fn serialize_map(self, _l: Option<usize>) -> Result<Self::SerializeMap, MockError> {
        Err(MockError::Other("map".into()))
    }
    fn serialize_struct(self, _n: &'static str, _l: usize) -> Result<Self::SerializeStruct, MockError> {
        Err(MockError::Other("struct".into()))
    }
    fn serialize_struct_variant(
        self,
        _n: &'static str,
        _i: u32,
        _v: &'static str,
        _l: usize,
    ) -> Result<Self::SerializeStructVariant, MockError> {
        Err(MockError::Other("struct_variant".into()))
    }
    fn is_human_readable(&self) -> bool {
        self.human_readable
    }
}

fn parse_error_name(msg: &str) -> &'static str {
    match msg {
        "length field is too large" => "LengthIsTooLarge",
        "encountered an invalid prefix" => "InvalidPrefix",
        "encountered an invalid character" => "InvalidCharacter",
        "string length is invalid" => "InvalidStringLength",
        "has an invalid checksum field" => "InvalidChecksum",
        _ => "UNKNOWN-MESSAGE",
    }
}

fn show_de<T: FuzzyHashType>(r: Result<T, MockError>) -> String {
    match r {
        Ok(h) => format!("ok {}", bin_of(&h)),
        Err(MockError::Custom(m)) => format!("err custom {}", parse_error_name(&m)),
        Err(MockError::InvalidType) => "err invalid_type".to_string(),
        Err(MockError::InvalidLength(k)) => format!("err invalid_length {}", k),
        Err(MockError::Other(m)) => format!("err other {}", m.replace(' ', "_")),
    }
}

pub fn dispatch(t: &[Tok]) -> String {
    let op = s(t, 0);
    match op {
        // serde_mock_de V hr kind payload  -> ok bin | err class  # hint asked
        "serde_mock_de" => for_variant!(s(t, 1), T, {
            let d = MockDe {
                human_readable: n(t, 2) != 0,
                kind: s(t, 3),
                payload: b(t, 4),
                asked: std::cell::RefCell::new(String::new()),
            };
            let r = <T as Deserialize>::deserialize(&d);
            format!("{} # {}", show_de(r), d.asked.borrow())
        }),
        // serde_mock_ser V hr bin -> str x.. | bytes x..
        "serde_mock_ser" => for_variant!(s(t, 1), T, {
            match T::try_from(b(t, 3)) {
                Err(e) => format!("hasherr {:?}", e),
                Ok(h) => match h.serialize(MockSer { human_readable: n(t, 2) != 0 }) {
                    Ok(ev) => ev,
                    Err(e) => format!("sererr {:?}", e),
                },
            }
        }),
        // serde_fmt V format bin -> <payload hex> <deserialized-back>
        "serde_fmt" => for_variant!(s(t, 1), T, {
            match T::try_from(b(t, 3)) {
                Err(e) => format!("hasherr {:?}", e),
                Ok(h) => match s(t, 2) {
                    "json" => {
                        let text = serde_json::to_string(&h).unwrap();
                        let back = serde_json::from_str::<T>(&text);
                        format!(
                            "{} {}",
                            hex(text.as_bytes()),
                            match back {
                                Ok(g) => format!("ok {}", bin_of(&g)),
                                Err(_) => "err".to_string(),
                            }
                        )
                    }
                    "cbor" => {
                        let mut out = Vec::new();
                        ciborium::into_writer(&h, &mut out).unwrap();
                        let back: Result<T, _> = ciborium::from_reader(out.as_slice());
                        format!(
                            "{} {}",
                            hex(&out),
                            match back {
                                Ok(g) => format!("ok {}", bin_of(&g)),
                                Err(_) => "err".to_string(),
                            }
                        )
                    }
                    "postcard" => {
                        let out = postcard::to_allocvec(&h).unwrap();
                        let back = postcard::from_bytes::<T>(&out);
                        format!(
                            "{} {}",
                            hex(&out),
                            match back {
                                Ok(g) => format!("ok {}", bin_of(&g)),
                                Err(_) => "err".to_string(),
                            }
                        )
                    }
                    _ => panic!("HARNESS: bad format"),
                },
            }
        }),
        // serde_de V format payload -> ok bin | err
        "serde_de" => for_variant!(s(t, 1), T, {
            let p = b(t, 3);
            let r: Result<T, String> = match s(t, 2) {
                "json" => serde_json::from_slice::<T>(p).map_err(|e| e.to_string()),
                "cbor" => ciborium::from_reader::<T, _>(p).map_err(|e| e.to_string()),
                "postcard" => postcard::from_bytes::<T>(p).map_err(|e| e.to_string()),
                _ => panic!("HARNESS: bad format"),
            };
            match r {
                Ok(h) => format!("ok {}", bin_of(&h)),
                Err(_) => "err".to_string(),
            }
        }),
        _ => panic!("HARNESS: unknown serde op {}", op),
    }
}
