//! Operations of the correspondence protocol, implementation side.

use crate::{hex, Tok};
use std::io::Read;
use tlsh::generate::GeneratorOptions;
use tlsh::hash::body::FuzzyHashBody;
use tlsh::hash::checksum::FuzzyHashChecksum;
use tlsh::hash::HexStringPrefix;
use tlsh::length::{DataLengthProcessingMode, DataLengthValidity, FuzzyHashLengthEncoding};
use tlsh::{ComparisonConfiguration, FuzzyHashType, GeneratorType};

/// A call into the library: heap allocations made while it runs are counted (see `crate::alloc_count`);
/// the glue around it (token parsing, output formatting) is not.
macro_rules! L {
    ($e:expr) => {
        crate::alloc_count::lib(|| $e)
    };
}

fn n(t: &[Tok], i: usize) -> u64 {
    match t.get(i) {
        Some(Tok::N(x)) => *x,
        _ => panic!("HARNESS: expected number at {}", i),
    }
}
fn b(t: &[Tok], i: usize) -> &[u8] {
    match t.get(i) {
        Some(Tok::B(x)) => x,
        _ => panic!("HARNESS: expected bytes at {}", i),
    }
}
fn s(t: &[Tok], i: usize) -> &str {
    match t.get(i) {
        Some(Tok::S(x)) => x,
        _ => panic!("HARNESS: expected symbol at {}", i),
    }
}

macro_rules! for_variant {
    ($v:expr, $T:ident, $body:block) => {
        match $v {
            "S" => {
                type $T = tlsh::hashes::Short;
                $body
            }
            "N" => {
                type $T = tlsh::hashes::Normal;
                $body
            }
            "NL" => {
                type $T = tlsh::hashes::NormalWithLongChecksum;
                $body
            }
            "L" => {
                type $T = tlsh::hashes::Long;
                $body
            }
            "LL" => {
                type $T = tlsh::hashes::LongWithLongChecksum;
                $body
            }
            _ => panic!("HARNESS: bad variant"),
        }
    };
}

fn options(bits: u64) -> GeneratorOptions {
    let mut o = GeneratorOptions::new();
    o.length_processing_mode(if bits & 1 != 0 {
        DataLengthProcessingMode::Conservative
    } else {
        DataLengthProcessingMode::Optimistic
    });
    o.pure_integer_qratio_computation(bits & 2 != 0);
    o.allow_small_size_files(bits & 4 != 0);
    o.allow_statistically_weak_buckets_half(bits & 8 != 0);
    o.allow_statistically_weak_buckets_quarter(bits & 16 != 0);
    o
}

fn prefix_mode(m: &str) -> Option<HexStringPrefix> {
    match m {
        "auto" => None,
        "empty" => Some(HexStringPrefix::Empty),
        "with" => Some(HexStringPrefix::WithVersion),
        _ => panic!("HARNESS: bad prefix mode"),
    }
}

fn cmp_mode(m: &str) -> ComparisonConfiguration {
    match m {
        "default" => ComparisonConfiguration::Default,
        "nolength" => ComparisonConfiguration::NoLength,
        _ => panic!("HARNESS: bad comparison mode"),
    }
}

fn bin_of<T: FuzzyHashType>(h: &T) -> String {
    let mut buf = vec![0u8; T::SIZE_IN_BYTES];
    L!(h.store_into_bytes(&mut buf)).unwrap();
    hex(&buf)
}

fn res_hash<T: FuzzyHashType, E: std::fmt::Debug>(r: Result<T, E>) -> String {
    match r {
        Ok(h) => format!("ok {}", bin_of(&h)),
        Err(e) => format!("err {:?}", e),
    }
}

fn le_u32s(b: &[u8]) -> Vec<u32> {
    b.chunks_exact(4)
        .map(|c| u32::from_le_bytes(c.try_into().unwrap()))
        .collect()
}

/// A scripted reader for the STREAM suite.
enum Step {
    Deliver(Vec<u8>),
    /// `gen seed n k`: n pseudo-random bytes in reads of at most k bytes
    Gen { state: u32, remaining: u64, k: usize },
    Interrupted,
    Hard(std::io::ErrorKind),
    /// a hard error whose payload is a tlsh::GeneratorError (a reader forwarding a nested hashing failure)
    HardGen(std::io::ErrorKind),
    /// claims buf.len() + k bytes without writing anything
    Lie(usize),
}
struct ScriptReader {
    steps: std::collections::VecDeque<Step>,
}
pub fn lcg_next(state: &mut u32) -> u8 {
    *state = state.wrapping_mul(1664525).wrapping_add(1013904223);
    (*state >> 24) as u8
}
impl Read for ScriptReader {
    fn read(&mut self, buf: &mut [u8]) -> std::io::Result<usize> {
        loop {
            match self.steps.pop_front() {
                None => return Ok(0),
                Some(Step::Deliver(d)) => {
                    if d.is_empty() {
                        continue;
                    }
                    let k = d.len().min(buf.len());
                    buf[..k].copy_from_slice(&d[..k]);
                    if k < d.len() {
                        self.steps.push_front(Step::Deliver(d[k..].to_vec()));
                    }
                    return Ok(k);
                }
                Some(Step::Gen { mut state, remaining, k }) => {
                    if remaining == 0 {
                        continue;
                    }
                    let m = (remaining.min(k as u64) as usize).min(buf.len());
                    for x in buf[..m].iter_mut() {
                        *x = lcg_next(&mut state);
                    }
                    self.steps.push_front(Step::Gen { state, remaining: remaining - m as u64, k });
                    return Ok(m);
                }
                Some(Step::Interrupted) => {
                    return Err(std::io::Error::new(std::io::ErrorKind::Interrupted, "scripted"))
                }
                Some(Step::Hard(k)) => return Err(std::io::Error::new(k, "scripted")),
                Some(Step::HardGen(k)) => return Err(std::io::Error::new(k, tlsh::GeneratorError::TooSmallInput)),
                Some(Step::Lie(k)) => return Ok(buf.len() + k),
            }
        }
    }
}
fn io_kind(name: &str) -> std::io::ErrorKind {
    use std::io::ErrorKind::*;
    match name {
        "NotFound" => NotFound,
        "PermissionDenied" => PermissionDenied,
        "UnexpectedEof" => UnexpectedEof,
        "TimedOut" => TimedOut,
        "WouldBlock" => WouldBlock,
        "BrokenPipe" => BrokenPipe,
        "InvalidData" => InvalidData,
        "Other" => Other,
        _ => panic!("HARNESS: bad io kind"),
    }
}
fn parse_script(t: &[Tok], mut i: usize) -> ScriptReader {
    let mut steps = std::collections::VecDeque::new();
    while i < t.len() {
        match s(t, i) {
            "d" => {
                steps.push_back(Step::Deliver(b(t, i + 1).to_vec()));
                i += 2;
            }
            "gen" => {
                steps.push_back(Step::Gen {
                    state: n(t, i + 1) as u32,
                    remaining: n(t, i + 2),
                    k: n(t, i + 3) as usize,
                });
                i += 4;
            }
            "i" => {
                steps.push_back(Step::Interrupted);
                i += 1;
            }
            "e" => {
                steps.push_back(Step::Hard(io_kind(s(t, i + 1))));
                i += 2;
            }
            "eg" => {
                steps.push_back(Step::HardGen(io_kind(s(t, i + 1))));
                i += 2;
            }
            "lie" => {
                steps.push_back(Step::Lie(n(t, i + 1) as usize));
                i += 2;
            }
            _ => panic!("HARNESS: bad script step"),
        }
    }
    ScriptReader { steps }
}

pub fn dispatch(t: &[Tok]) -> String {
    let op = s(t, 0);
    match op {
        // na <op ...>: the number of heap allocations made INSIDE the library calls of <op ...>, then its output
        "na" => {
            crate::alloc_count::reset();
            let r = dispatch(&t[1..]);
            format!("{} | {}", crate::alloc_count::get(), r)
        }
        // ---------------------------------------------------------------- LEN
        "len_new" => match L!(FuzzyHashLengthEncoding::new(n(t, 1) as u32)) {
            Some(e) => format!("some {}", e.value()),
            None => "none".to_string(),
        },
        "len_tryfrom" => match L!(FuzzyHashLengthEncoding::try_from(n(t, 1) as u32)) {
            Ok(e) => format!("ok {}", e.value()),
            Err(e) => format!("err {:?}", e),
        },
        "len_code" => {
            // range()/is_valid() of a raw code: obtained through the binary parser of Normal
            // (code byte at offset 1); with strict-parser invalid codes are rejected earlier.
            let c = n(t, 1) as u8;
            let mut raw = [0u8; 35];
            raw[1] = c;
            match tlsh::hashes::Normal::try_from(&raw) {
                Ok(h) => {
                    let l = h.length();
                    let r = match l.range() {
                        Some(r) => format!("some {} {}", r.start(), r.end()),
                        None => "none".to_string(),
                    };
                    format!("valid {} range {}", l.is_valid() as u8, r)
                }
                Err(e) => format!("err {:?}", e),
            }
        }
        "validity" => {
            let len = n(t, 2) as u32;
            let v = match s(t, 1) {
                "S" => DataLengthValidity::new::<48>(len),
                "N" | "NL" => DataLengthValidity::new::<128>(len),
                "L" | "LL" => DataLengthValidity::new::<256>(len),
                _ => panic!("HARNESS: bad variant"),
            };
            format!(
                "{:?} {} {} {}",
                v,
                v.is_err() as u8,
                v.is_err_on(DataLengthProcessingMode::Optimistic) as u8,
                v.is_err_on(DataLengthProcessingMode::Conservative) as u8
            )
        }
        "limits" => for_variant!(s(t, 1), T, {
            type G = tlsh::generate::Generator<T>;
            format!("{} {} {}", G::MIN, G::MIN_CONSERVATIVE, G::MAX)
        }),
        // ------------------------------------------------------------ HEX/BIN
        "parse" => for_variant!(s(t, 1), T, {
            res_hash(L!(T::from_str_bytes(b(t, 3), prefix_mode(s(t, 2)))))
        }),
        "fromstr" => for_variant!(s(t, 1), T, {
            match std::str::from_utf8(b(t, 2)) {
                Ok(st) => {
                    let r1 = res_hash(L!(st.parse::<T>()));
                    let r2 = res_hash(L!(T::from_str_with(st, None)));
                    if r1 != r2 {
                        format!("INCONSISTENT fromstr {} vs from_str_with {}", r1, r2)
                    } else {
                        r1
                    }
                }
                Err(_) => panic!("HARNESS: fromstr needs UTF-8"),
            }
        }),
        "frombytes" => for_variant!(s(t, 1), T, { res_hash(L!(T::try_from(b(t, 2)))) }),
        // fromstrm V mode x: from_str_with with an explicit / automatic prefix mode on a &str
        "fromstrm" => for_variant!(s(t, 1), T, {
            match std::str::from_utf8(b(t, 3)) {
                Ok(st) => res_hash(L!(T::from_str_with(st, prefix_mode(s(t, 2))))),
                Err(_) => panic!("HARNESS: fromstrm needs UTF-8"),
            }
        }),
        // fmto V bin prefix off buf: store_into_str_bytes into a sub-slice starting `off` bytes into a 16-byte aligned arena
        "fmto" => for_variant!(s(t, 1), T, {
            match L!(T::try_from(b(t, 2))) {
                Err(e) => format!("hasherr {:?}", e),
                Ok(h) => {
                    let p = prefix_mode(s(t, 3)).expect("HARNESS: fmto needs a prefix");
                    let off = n(t, 4) as usize;
                    let src = b(t, 5);
                    let mut arena: Vec<u128> = vec![0u128; (off + src.len()) / 16 + 2];
                    let bytes: &mut [u8] = unsafe { std::slice::from_raw_parts_mut(arena.as_mut_ptr() as *mut u8, arena.len() * 16) };
                    bytes[off..off + src.len()].copy_from_slice(src);
                    let r = L!(h.store_into_str_bytes(&mut bytes[off..off + src.len()], p));
                    let after = bytes[off..off + src.len()].to_vec();
                    match r {
                        Ok(k) => format!("ok {} {}", k, hex(&after)),
                        Err(e) => format!("err {:?} {}", e, hex(&after)),
                    }
                }
            }
        }),
        "fromarray" => for_variant!(s(t, 1), T, {
            // TryFrom<&[u8; SIZE]>
            const SZ: usize = <T as FuzzyHashType>::SIZE_IN_BYTES;
            let arr: [u8; SZ] = b(t, 2).try_into().expect("HARNESS: fromarray needs exact size");
            res_hash(L!(T::try_from(&arr)))
        }),
        "fmt" => for_variant!(s(t, 1), T, {
            match L!(T::try_from(b(t, 2))) {
                Err(e) => format!("hasherr {:?}", e),
                Ok(h) => {
                    let p = prefix_mode(s(t, 3)).expect("HARNESS: fmt needs a prefix");
                    let mut buf = b(t, 4).to_vec();
                    match L!(h.store_into_str_bytes(&mut buf, p)) {
                        Ok(k) => format!("ok {} {}", k, hex(&buf)),
                        Err(e) => format!("err {:?} {}", e, hex(&buf)),
                    }
                }
            }
        }),
        "storebytes" => for_variant!(s(t, 1), T, {
            match L!(T::try_from(b(t, 2))) {
                Err(e) => format!("hasherr {:?}", e),
                Ok(h) => {
                    let mut buf = b(t, 3).to_vec();
                    match L!(h.store_into_bytes(&mut buf)) {
                        Ok(k) => format!("ok {} {}", k, hex(&buf)),
                        Err(e) => format!("err {:?} {}", e, hex(&buf)),
                    }
                }
            }
        }),
        "display" => for_variant!(s(t, 1), T, {
            match L!(T::try_from(b(t, 2))) {
                Err(e) => format!("hasherr {:?}", e),
                Ok(h) => {
                    let a = h.to_string();
                    let c = format!("{}", h);
                    if a != c {
                        "INCONSISTENT display".to_string()
                    } else {
                        hex(a.as_bytes())
                    }
                }
            }
        }),
        "debugf" => for_variant!(s(t, 1), T, {
            let r = L!(T::try_from(b(t, 2)));
            match &r {
                Err(e) => format!("hasherr {:?}", e),
                Ok(h) => {
                    let n = format!("{:?}{:#?}{:?}{:#?}{:?}{:#?}{:?}{:#?}{:?}{:#?}", h, h, h.checksum(), h.checksum(), h.length(), h.length(),
                                    h.qratios(), h.qratios(), h.body(), h.body()).len()
                        + format!("{:?}{:#?}", r, r).len();
                    if n > 0 { "ok".to_string() } else { "empty".to_string() }
                }
            }
        }),
        "displayf" => for_variant!(s(t, 1), T, {
            match L!(T::try_from(b(t, 2))) {
                Err(e) => format!("hasherr {:?}", e),
                Ok(h) => format!(
                    "{} {} {} {} {}",
                    hex(format!("{:>80}", h).as_bytes()),
                    hex(format!("{:.10}", h).as_bytes()),
                    hex(format!("{:^150}", h).as_bytes()),
                    hex(format!("{:*<5}", h).as_bytes()),
                    hex(format!("{:08}", h).as_bytes())
                ),
            }
        }),
        "consts" => for_variant!(s(t, 1), T, {
            format!(
                "{} {} {} {} {} {} {}",
                T::NUMBER_OF_BUCKETS,
                T::SIZE_IN_BYTES,
                T::LEN_IN_STR_EXCEPT_PREFIX,
                T::LEN_IN_STR,
                <<T as FuzzyHashType>::ChecksumType as FuzzyHashChecksum>::SIZE,
                <<T as FuzzyHashType>::BodyType as FuzzyHashBody>::SIZE,
                <<T as FuzzyHashType>::BodyType as FuzzyHashBody>::NUM_BUCKETS,
            )
        }),
        "parts" => for_variant!(s(t, 1), T, {
            match L!(T::try_from(b(t, 2))) {
                Err(e) => format!("hasherr {:?}", e),
                Ok(h) => {
                    let nb = T::NUMBER_OF_BUCKETS;
                    let mut q = vec![0u8; nb];
                    L!(for (i, x) in q.iter_mut().enumerate() {
                        *x = h.body().quartile(i);
                    });
                    let (ck, lv, qv, q1, q2, body, ckv, lenv) = L!((
                        h.checksum().data(),
                        h.length().value(),
                        h.qratios().value(),
                        h.qratios().q1ratio(),
                        h.qratios().q2ratio(),
                        h.body().data(),
                        h.checksum().is_valid(),
                        h.length().is_valid(),
                    ));
                    format!(
                        "{} {} {} {} {} {} {} {} {}",
                        hex(ck),
                        lv,
                        qv,
                        q1,
                        q2,
                        hex(body),
                        hex(&q),
                        ckv as u8,
                        lenv as u8,
                    )
                }
            }
        }),
        "quartile" => for_variant!(s(t, 1), T, {
            match L!(T::try_from(b(t, 2))) {
                Err(e) => format!("hasherr {:?}", e),
                Ok(h) => format!("{}", L!(h.body().quartile(n(t, 3) as usize))),
            }
        }),
        "valid" => for_variant!(s(t, 1), T, {
            // FuzzyHashChecksum::is_valid / FuzzyHashLengthEncoding::is_valid of a value (any build)
            match L!(T::try_from(b(t, 2))) {
                Err(e) => format!("hasherr {:?}", e),
                Ok(h) => { let (a, c) = L!((h.checksum().is_valid(), h.length().is_valid())); format!("{} {}", a as u8, c as u8) }
            }
        }),
        "clearcks" => for_variant!(s(t, 1), T, {
            match L!(T::try_from(b(t, 2))) {
                Err(e) => format!("hasherr {:?}", e),
                Ok(mut h) => {
                    L!(h.clear_checksum());
                    bin_of(&h)
                }
            }
        }),
        // --------------------------------------------------------------- DIST
        "cmp" => for_variant!(s(t, 1), T, {
            match (L!(T::try_from(b(t, 2))), L!(T::try_from(b(t, 3)))) {
                (Ok(a), Ok(c)) => {
                    let m = cmp_mode(s(t, 4));
                    let d = L!(a.compare_with_config(&c, m));
                    if m == ComparisonConfiguration::Default && L!(a.compare(&c)) != d {
                        "INCONSISTENT compare".to_string()
                    } else {
                        format!("{}", d)
                    }
                }
                (Err(e), _) => format!("hasherr {:?}", e),
                (_, Err(e)) => format!("hasherr {:?}", e),
            }
        }),
        "laws" => for_variant!(s(t, 1), T, {
            // every relation of C08 on one pair, through the public API only
            match (L!(T::try_from(b(t, 2))), L!(T::try_from(b(t, 3)))) {
                (Ok(a), Ok(c)) => {
                    let (dm, nm) = (ComparisonConfiguration::Default, ComparisonConfiguration::NoLength);
                    let (mut ca, mut cc) = (a, c);
                    L!(ca.clear_checksum());
                    L!(cc.clear_checksum());
                    let ndiff = a
                        .checksum()
                        .data()
                        .iter()
                        .zip(c.checksum().data().iter())
                        .filter(|(x, y)| x != y)
                        .count();
                    let v = L!((
                        a.compare_with_config(&c, dm),
                        c.compare_with_config(&a, dm),
                        a.compare_with_config(&c, nm),
                        c.compare_with_config(&a, nm),
                        a.compare_with_config(&a, dm),
                        c.compare_with_config(&c, nm),
                        a.length().compare(c.length()),
                        ca.compare_with_config(&cc, dm),
                        ca.compare_with_config(&cc, nm),
                        T::max_distance(dm),
                        T::max_distance(nm),
                        a == c,
                        a.compare(&c),
                    ));
                    format!(
                        "{} {} {} {} {} {} {} {} {} {} {} {} {} {}",
                        v.0, v.1, v.2, v.3, v.4, v.5, v.6, v.7, v.8, ndiff, v.9, v.10, v.11 as u8, v.12
                    )
                }
                (Err(e), _) => format!("hasherr {:?}", e),
                (_, Err(e)) => format!("hasherr {:?}", e),
            }
        }),
        // traits V a b: derived trait behaviour of two values and their parts
        "traits" => for_variant!(s(t, 1), T, {
            match (L!(T::try_from(b(t, 2))), L!(T::try_from(b(t, 3)))) {
                (Ok(a), Ok(c)) => {
                    let cl = a.clone();
                    let mut cf = c;
                    cf.clone_from(&a);
                    let cp = a;
                    let dbg = format!("{:?}", a) == format!("{:?}", cl) && (format!("{:?}", a) == format!("{:?}", c)) == (a == c);
                    format!(
                        "{} {} {} {} {} {} {} {} {} {} {} {}",
                        (a == c) as u8,
                        (a != c) as u8,
                        (cl == a) as u8,
                        (cf == a) as u8,
                        (cp == a) as u8,
                        dbg as u8,
                        (a.checksum() == c.checksum()) as u8,
                        (a.length() == c.length()) as u8,
                        (a.qratios() == c.qratios()) as u8,
                        (a.body() == c.body()) as u8,
                        bin_of(&cf),
                        bin_of(&c)
                    )
                }
                (Err(e), _) => format!("hasherr {:?}", e),
                (_, Err(e)) => format!("hasherr {:?}", e),
            }
        }),
        // race V k a b data: k threads released together each run compare(a,b) and hash(data) -- when this is
        // the first case of a process these are the calls that trigger CPU feature detection
        "race" => for_variant!(s(t, 1), T, {
            let k = n(t, 2) as usize;
            let (ha, hb2) = (T::try_from(b(t, 3)).unwrap(), T::try_from(b(t, 4)).unwrap());
            let data = b(t, 5).to_vec();
            let barrier = std::sync::Arc::new(std::sync::Barrier::new(k));
            let mut hs = vec![];
            for i in 0..k {
                let (bar, d) = (barrier.clone(), data.clone());
                hs.push(std::thread::spawn(move || {
                    bar.wait();
                    // half of the threads start with the comparison, half with the generator
                    let (x, y) = if i % 2 == 0 {
                        let x = ha.compare(&hb2);
                        (x, res_hash(tlsh::hash_buf_for::<T>(&d)))
                    } else {
                        let y = res_hash(tlsh::hash_buf_for::<T>(&d));
                        (ha.compare(&hb2), y)
                    };
                    format!("{} {}", x, y)
                }));
            }
            let rs: Vec<String> = hs.into_iter().map(|h| h.join().unwrap()).collect();
            if rs.iter().all(|r| r == &rs[0]) {
                rs[0].clone()
            } else {
                format!("RACE-MISMATCH {:?}", rs).replace(' ', "_")
            }
        }),
        "maxdist" => for_variant!(s(t, 1), T, { format!("{}", T::max_distance(cmp_mode(s(t, 2)))) }),
        "partmax" => for_variant!(s(t, 1), T, {
            format!(
                "{} {} {} {}",
                <<T as FuzzyHashType>::BodyType as FuzzyHashBody>::MAX_DISTANCE,
                <<T as FuzzyHashType>::ChecksumType as FuzzyHashChecksum>::MAX_DISTANCE,
                tlsh::hash::qratios::FuzzyHashQRatios::MAX_DISTANCE,
                FuzzyHashLengthEncoding::MAX_DISTANCE
            )
        }),
        "dbody" => {
            let (x, y) = (b(t, 3), b(t, 4));
            let r = match n(t, 1) {
                12 => L!(tlsh::verif::distance_12_by(s(t, 2), x.try_into().unwrap(), y.try_into().unwrap())),
                32 => L!(tlsh::verif::distance_32_by(s(t, 2), x.try_into().unwrap(), y.try_into().unwrap())),
                64 => L!(tlsh::verif::distance_64_by(s(t, 2), x.try_into().unwrap(), y.try_into().unwrap())),
                _ => panic!("HARNESS: bad body size"),
            };
            match r {
                Some(d) => format!("{}", d),
                None => "na".to_string(),
            }
        }
        "dlen" => format!("{}", tlsh::verif::distance_length(n(t, 1) as u8, n(t, 2) as u8)),
        "dq" => format!("{}", tlsh::verif::distance_qratios(n(t, 1) as u8, n(t, 2) as u8)),
        "dck1" => format!("{}", tlsh::verif::distance_checksum_1([n(t, 1) as u8], [n(t, 2) as u8])),
        "dck3" => format!(
            "{}",
            tlsh::verif::distance_checksum_3(b(t, 1).try_into().unwrap(), b(t, 2).try_into().unwrap())
        ),
        "ring" => format!(
            "{}",
            tlsh::verif::distance_on_ring_mod(n(t, 1) as u8, n(t, 2) as u8, n(t, 3) as u8)
        ),
        // ---------------------------------------------------------------- GEN
        "bmap" => {
            let (a0, a1, a2, a3) = (n(t, 2) as u8, n(t, 3) as u8, n(t, 4) as u8, n(t, 5) as u8);
            match n(t, 1) {
                48 => format!("{}", tlsh::verif::b_mapping_48(a0, a1, a2, a3)),
                256 => format!("{}", tlsh::verif::b_mapping_256(a0, a1, a2, a3)),
                _ => panic!("HARNESS: bad bmap kind"),
            }
        }
        "pearson" => format!(
            "{} {} {}",
            tlsh::verif::pearson_update(n(t, 1) as u8, n(t, 2) as u8),
            tlsh::verif::pearson_update_double(n(t, 1) as u8, n(t, 2) as u8, n(t, 3) as u8),
            tlsh::verif::pearson_final_48(n(t, 1) as u8, n(t, 2) as u8)
        ),
        "agg" => {
            let bk = le_u32s(b(t, 6));
            let (q1, q2, q3) = (n(t, 3) as u32, n(t, 4) as u32, n(t, 5) as u32);
            let be = s(t, 2);
            match n(t, 1) {
                48 => {
                    let mut out = [0u8; 12];
                    if L!(tlsh::verif::aggregate_48_by(be, &mut out, bk.as_slice().try_into().unwrap(), q1, q2, q3)) {
                        hex(&out)
                    } else {
                        "na".to_string()
                    }
                }
                128 => {
                    let mut out = [0u8; 32];
                    if L!(tlsh::verif::aggregate_128_by(be, &mut out, bk.as_slice().try_into().unwrap(), q1, q2, q3)) {
                        hex(&out)
                    } else {
                        "na".to_string()
                    }
                }
                256 => {
                    let mut out = [0u8; 64];
                    if L!(tlsh::verif::aggregate_256_by(be, &mut out, bk.as_slice().try_into().unwrap(), q1, q2, q3)) {
                        hex(&out)
                    } else {
                        "na".to_string()
                    }
                }
                _ => panic!("HARNESS: bad agg size"),
            }
        }
        "hash" => for_variant!(s(t, 1), T, {
            let mut g = L!(tlsh::generate::Generator::<T>::new());
            L!(g.update(b(t, 3)));
            res_hash(L!(g.finalize_with_options(&options(n(t, 2)))))
        }),
        "hashbuf" => for_variant!(s(t, 1), T, { res_hash(L!(tlsh::hash_buf_for::<T>(b(t, 2)))) }),
        // hist V [inject xBUCKETS len xCKS xTAIL taillen] ops...
        "hist" => for_variant!(s(t, 1), T, {
            type G = tlsh::generate::Generator<T>;
            let mut i = 2;
            let mut stack: Vec<G> = vec![];
            if let Some(Tok::S(x)) = t.get(2) {
                if x == "inject" {
                    let bk = le_u32s(b(t, 3));
                    let mut bk256 = bk.clone();
                    bk256.resize(256, 0);
                    let g = G::verif_from_raw_state(
                        &bk256,
                        n(t, 4) as u32,
                        b(t, 5),
                        b(t, 6).try_into().unwrap(),
                        n(t, 7) as u32,
                    );
                    stack.push(g);
                    i = 8;
                }
            }
            if stack.is_empty() {
                stack.push(L!(G::new()));
            }
            let mut out: Vec<String> = vec![];
            while i < t.len() {
                match s(t, i) {
                    "u" => {
                        L!(stack.last_mut().unwrap().update(b(t, i + 1)));
                        i += 2;
                    }
                    "ugen" => {
                        // update with n pseudo-random bytes (seed, n), in one call
                        let mut st = n(t, i + 1) as u32;
                        let k = n(t, i + 2) as usize;
                        let d: Vec<u8> = (0..k).map(|_| lcg_next(&mut st)).collect();
                        L!(stack.last_mut().unwrap().update(&d));
                        i += 3;
                    }
                    "usplit" => {
                        // n pseudo-random bytes (seed, n) fed as two updates: [0..a) and [a..n)
                        let mut st = n(t, i + 1) as u32;
                        let (k, a) = (n(t, i + 2) as usize, n(t, i + 3) as usize);
                        let d: Vec<u8> = (0..k).map(|_| lcg_next(&mut st)).collect();
                        let a = a.min(k);
                        L!(stack.last_mut().unwrap().update(&d[..a]));
                        L!(stack.last_mut().unwrap().update(&d[a..]));
                        i += 4;
                    }
                    "urun" => {
                        // n bytes alternating b1, b2 (b1 == b2: a constant run), in pieces of k bytes (k = 0: one slice)
                        let (b1, b2, k, piece) = (n(t, i + 1) as u8, n(t, i + 2) as u8, n(t, i + 3) as usize, n(t, i + 4) as usize);
                        let d: Vec<u8> = (0..k).map(|j| if j % 2 == 0 { b1 } else { b2 }).collect();
                        if piece == 0 {
                            L!(stack.last_mut().unwrap().update(&d));
                        } else {
                            for c in d.chunks(piece) {
                                L!(stack.last_mut().unwrap().update(c));
                            }
                        }
                        i += 5;
                    }
                    "uzero" => {
                        // update with ONE slice of n zero bytes (n may exceed 4 GiB)
                        let k = n(t, i + 1) as usize;
                        let d = vec![0u8; k];
                        L!(stack.last_mut().unwrap().update(&d));
                        i += 2;
                    }
                    "f" => {
                        out.push(res_hash(L!(stack.last().unwrap().finalize_with_options(&options(n(t, i + 1))))));
                        i += 2;
                    }
                    "fd" => {
                        out.push(res_hash(L!(stack.last().unwrap().finalize())));
                        i += 1;
                    }
                    "fo" => {
                        // finalize with ONE options object configured as <a> first and then re-configured as <b>
                        let (a, bb) = (n(t, i + 1), n(t, i + 2));
                        let mut o = options(a);
                        o.length_processing_mode(if bb & 1 != 0 { DataLengthProcessingMode::Conservative } else { DataLengthProcessingMode::Optimistic });
                        o.pure_integer_qratio_computation(bb & 2 != 0);
                        o.allow_small_size_files(bb & 4 != 0);
                        o.allow_statistically_weak_buckets_half(bb & 8 != 0);
                        o.allow_statistically_weak_buckets_quarter(bb & 16 != 0);
                        let same = (o == options(bb)) as u8;
                        out.push(format!("{} {}", res_hash(L!(stack.last().unwrap().finalize_with_options(&o))), same));
                        i += 3;
                    }
                    "l" => {
                        out.push(match L!(stack.last().unwrap().processed_len()) {
                            Some(x) => format!("some {}", x),
                            None => "none".to_string(),
                        });
                        i += 1;
                    }
                    "r" => {
                        let (bk, nphys, len, ck, cn, tail, tl) = stack.last().unwrap().verif_raw_state();
                        let nb = T::NUMBER_OF_BUCKETS;
                        // only the effective buckets are observable-equivalent across layouts
                        let mut bb = Vec::with_capacity(nb * 4);
                        for x in &bk[..nb] {
                            bb.extend_from_slice(&x.to_le_bytes());
                        }
                        let _ = nphys;
                        out.push(format!("raw {} {} {} {} {}", hex(&bb), len, hex(&ck[..cn]), hex(&tail), tl));
                        i += 1;
                    }
                    "c" => {
                        let g = L!(stack.last().unwrap().clone());
                        stack.push(g);
                        i += 1;
                    }
                    "cf" => {
                        // Clone::clone_from: the top generator becomes, in place, a copy of the one below it
                        let k = stack.len();
                        if k > 1 {
                            let (lo, hi) = stack.split_at_mut(k - 1);
                            L!(hi[0].clone_from(&lo[k - 2]));
                        }
                        i += 1;
                    }
                    "cn" => {
                        let fresh = L!(G::new());
                        L!(stack.last_mut().unwrap().clone_from(&fresh));
                        i += 1;
                    }
                    "p" => {
                        if stack.len() > 1 {
                            stack.pop();
                        }
                        i += 1;
                    }
                    "w" => {
                        let k = stack.len();
                        if k > 1 {
                            stack.swap(k - 1, k - 2);
                        }
                        i += 1;
                    }
                    _ => panic!("HARNESS: bad history op"),
                }
            }
            out.join(" | ")
        }),
        // ------------------------------------------------------------- STREAM
        "stream" => for_variant!(s(t, 1), T, {
            let mut r = parse_script(t, 2);
            match tlsh::hash_stream_for::<T, _>(&mut r) {
                Ok(h) => format!("ok {}", bin_of(&h)),
                Err(tlsh::GeneratorOrIOError::GeneratorError(e)) => format!("generr {:?}", e),
                Err(tlsh::GeneratorOrIOError::IOError(e)) => format!("ioerr {:?}", e.kind()),
            }
        }),
        "file" => for_variant!(s(t, 1), T, {
            // file V <size> <seed>: writes a file, hashes it with hash_file_for and with
            // hash_buf_for(read(file)); prints both (they must be equal)
            let size = n(t, 2) as usize;
            let mut st = n(t, 3) as u32;
            let d: Vec<u8> = (0..size).map(|_| lcg_next(&mut st)).collect();
            let dir = std::env::var("VERIF_TMPDIR").unwrap_or_else(|_| "/tmp".to_string());
            let path = format!("{}/verif-file-{}-{}-{}", dir, std::process::id(), size, n(t, 3));
            std::fs::write(&path, &d).unwrap();
            let a = match tlsh::hash_file_for::<T, _>(&path) {
                Ok(h) => format!("ok {}", bin_of(&h)),
                Err(tlsh::GeneratorOrIOError::GeneratorError(e)) => format!("generr {:?}", e),
                Err(tlsh::GeneratorOrIOError::IOError(e)) => format!("ioerr {:?}", e.kind()),
            };
            let back = std::fs::read(&path).unwrap();
            let _ = std::fs::remove_file(&path);
            let c = match tlsh::hash_buf_for::<T>(&back) {
                Ok(h) => format!("ok {}", bin_of(&h)),
                Err(e) => format!("generr {:?}", e),
            };
            format!("{} == {}", a, c)
        }),
        // filepath V <path bytes>: hash_file_for(path) vs hash_buf_for(fs::read(path)) for an existing path
        // (pseudo-files whose metadata reports length 0, e.g. under /proc)
        "filepath" => for_variant!(s(t, 1), T, {
            let path = std::str::from_utf8(b(t, 2)).expect("HARNESS: utf8").to_string();
            let back = std::fs::read(&path).unwrap();
            let a = match tlsh::hash_file_for::<T, _>(&path) {
                Ok(h) => format!("ok {}", bin_of(&h)),
                Err(tlsh::GeneratorOrIOError::GeneratorError(e)) => format!("generr {:?}", e),
                Err(tlsh::GeneratorOrIOError::IOError(e)) => format!("ioerr {:?}", e.kind()),
            };
            let c = match tlsh::hash_buf_for::<T>(&back) {
                Ok(h) => format!("ok {}", bin_of(&h)),
                Err(e) => format!("generr {:?}", e),
            };
            format!("{} == {} # {} bytes", a, c, back.len())
        }),
        "nofile" => for_variant!(s(t, 1), T, {
            match tlsh::hash_file_for::<T, _>("/nonexistent-dir-verif/none") {
                Ok(h) => format!("ok {}", bin_of(&h)),
                Err(tlsh::GeneratorOrIOError::GeneratorError(e)) => format!("generr {:?}", e),
                Err(tlsh::GeneratorOrIOError::IOError(e)) => format!("ioerr {:?}", e.kind()),
            }
        }),
        // nested V <outer n> <inner n> <k>: a reader delivering <outer n> pseudo-random bytes in reads of at most k bytes which, inside its
        // FIRST read() and again inside a later one, itself hashes another stream (hash_stream_for) / a file (hash_file_for) of
        // <inner n> bytes on the same thread; prints every result next to hash_buf of the same bytes
        "nested" => for_variant!(s(t, 1), T, {
            struct Outer<'a> {
                state: u32,
                remaining: usize,
                k: usize,
                calls: usize,
                log: Vec<String>,
                inner_stream: &'a dyn Fn() -> String,
                inner_file: &'a dyn Fn() -> String,
            }
            impl<'a> Read for Outer<'a> {
                fn read(&mut self, buf: &mut [u8]) -> std::io::Result<usize> {
                    self.calls += 1;
                    if self.calls == 1 || self.calls == 3 {
                        self.log.push((self.inner_stream)());
                    }
                    if self.calls == 2 {
                        self.log.push((self.inner_file)());
                    }
                    let m = self.remaining.min(self.k).min(buf.len());
                    for x in buf[..m].iter_mut() {
                        *x = lcg_next(&mut self.state);
                    }
                    self.remaining -= m;
                    Ok(m)
                }
            }
            let (on, inn, k) = (n(t, 2) as usize, n(t, 3) as usize, (n(t, 4) as usize).max(1));
            let mut st = 99u32;
            let inner: Vec<u8> = (0..inn).map(|_| lcg_next(&mut st)).collect();
            let dir = std::env::var("VERIF_TMPDIR").unwrap_or_else(|_| "/tmp".to_string());
            let path = format!("{}/verif-nested-{}-{}-{}", dir, std::process::id(), on, inn);
            std::fs::write(&path, &inner).unwrap();
            let show = |r: Result<T, tlsh::GeneratorOrIOError>| match r {
                Ok(h) => format!("ok {}", bin_of(&h)),
                Err(tlsh::GeneratorOrIOError::GeneratorError(e)) => format!("generr {:?}", e),
                Err(tlsh::GeneratorOrIOError::IOError(e)) => format!("ioerr {:?}", e.kind()),
            };
            let inner_stream = || {
                let mut cur = std::io::Cursor::new(inner.clone());
                show(tlsh::hash_stream_for::<T, _>(&mut cur))
            };
            let inner_file = || show(tlsh::hash_file_for::<T, _>(&path));
            let mut o = Outer { state: 7, remaining: on, k, calls: 0, log: vec![], inner_stream: &inner_stream, inner_file: &inner_file };
            let outer = match tlsh::hash_stream_for::<T, _>(&mut o) {
                Ok(h) => format!("ok {}", bin_of(&h)),
                Err(tlsh::GeneratorOrIOError::GeneratorError(e)) => format!("generr {:?}", e),
                Err(tlsh::GeneratorOrIOError::IOError(e)) => format!("ioerr {:?}", e.kind()),
            };
            let _ = std::fs::remove_file(&path);
            let mut st2 = 7u32;
            let od: Vec<u8> = (0..on).map(|_| lcg_next(&mut st2)).collect();
            let want_outer = match tlsh::hash_buf_for::<T>(&od) {
                Ok(h) => format!("ok {}", bin_of(&h)),
                Err(e) => format!("generr {:?}", e),
            };
            let want_inner = match tlsh::hash_buf_for::<T>(&inner) {
                Ok(h) => format!("ok {}", bin_of(&h)),
                Err(e) => format!("generr {:?}", e),
            };
            format!("outer {} == {} ; inner {} == {}", outer, want_outer, o.log.join(" , "), want_inner)
        }),
        // --------------------------------------------------------------- EASY
        "cmpstr" => for_variant!(s(t, 1), T, {
            let l = std::str::from_utf8(b(t, 2)).expect("HARNESS: utf8");
            let r = std::str::from_utf8(b(t, 3)).expect("HARNESS: utf8");
            match L!(tlsh::compare_with::<T>(l, r)) {
                Ok(d) => format!("ok {}", d),
                Err(e) => format!("err {:?} {:?}", e.side(), e.inner_err()),
            }
        }),
        "cmpstr_default" => {
            let l = std::str::from_utf8(b(t, 1)).expect("HARNESS: utf8");
            let r = std::str::from_utf8(b(t, 2)).expect("HARNESS: utf8");
            match L!(tlsh::compare(l, r)) {
                Ok(d) => format!("ok {}", d),
                Err(e) => format!("err {:?} {:?}", e.side(), e.inner_err()),
            }
        }
        #[cfg(feature = "serde-suite")]
        x if x.starts_with("serde_") => crate::ops_serde::dispatch(t),
        _ => panic!("HARNESS: unknown op {}", op),
    }
}

/// Exhaustive run-length encoding of `new(len)` over all 2^32 lengths (16 threads).
pub fn len_rle() {
    let nthreads = 16u64;
    let chunk = (1u64 << 32) / nthreads;
    let mut handles = vec![];
    for ti in 0..nthreads {
        handles.push(std::thread::spawn(move || {
            let start = ti * chunk;
            let end = start + chunk;
            let mut runs: Vec<(u64, i32)> = vec![];
            let mut cur: Option<i32> = None;
            for len in start..end {
                let c = match FuzzyHashLengthEncoding::new(len as u32) {
                    Some(e) => e.value() as i32,
                    None => -1,
                };
                if cur != Some(c) {
                    runs.push((len, c));
                    cur = Some(c);
                }
            }
            runs
        }));
    }
    let mut all: Vec<(u64, i32)> = vec![];
    for h in handles {
        for r in h.join().unwrap() {
            if all.last().map(|l| l.1) != Some(r.1) {
                all.push(r);
            }
        }
    }
    let out = std::io::stdout();
    let mut out = out.lock();
    for (start, c) in all {
        if c < 0 {
            writeln!(out, "run {} none", start).unwrap();
        } else {
            writeln!(out, "run {} {}", start, c).unwrap();
        }
    }
}

use std::io::Write;
