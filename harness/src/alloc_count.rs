//! A counting global allocator (C18).  Only allocations made while a library call runs
//! (`lib(|| ..)`, on the calling thread) are counted; the harness's own glue is not.

use std::alloc::{GlobalAlloc, Layout, System};
use std::cell::Cell;
use std::sync::atomic::{AtomicU64, Ordering::Relaxed};

pub struct Counting;

thread_local! {
    static ON: Cell<bool> = const { Cell::new(false) };
}
static COUNT: AtomicU64 = AtomicU64::new(0);

#[inline]
fn note() {
    // `try_with`: the allocator may run while the thread's locals are being torn down
    if ON.try_with(|c| c.get()).unwrap_or(false) {
        COUNT.fetch_add(1, Relaxed);
    }
}

unsafe impl GlobalAlloc for Counting {
    unsafe fn alloc(&self, l: Layout) -> *mut u8 {
        note();
        System.alloc(l)
    }
    unsafe fn alloc_zeroed(&self, l: Layout) -> *mut u8 {
        note();
        System.alloc_zeroed(l)
    }
    unsafe fn realloc(&self, p: *mut u8, l: Layout, n: usize) -> *mut u8 {
        note();
        System.realloc(p, l, n)
    }
    unsafe fn dealloc(&self, p: *mut u8, l: Layout) {
        System.dealloc(p, l)
    }
}

/// Run a library call with counting switched on for this thread.
#[inline]
pub fn lib<R>(f: impl FnOnce() -> R) -> R {
    let prev = ON.with(|c| c.replace(true));
    let r = f();
    ON.with(|c| c.set(prev));
    r
}

/// After a caught panic: counting off again.
pub fn off() {
    ON.with(|c| c.set(false));
}
pub fn reset() {
    COUNT.store(0, Relaxed);
}
pub fn get() -> u64 {
    COUNT.load(Relaxed)
}
