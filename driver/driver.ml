(* Correspondence driver: runs the model extracted from Coq (model.ml) on a case file.
   usage: driver <casefile> [flag numbers...]
   Same line format as the Rust harness: tokens separated by spaces; decimal number,
   x<hex> byte string, or bare symbol.  One output line per input line. *)
module M = Model
open M (* constructors only; OCaml's own string/list types are re-qualified below *)

let rec pos_of_int n =
  if n = 1 then XH
  else if n land 1 = 0 then XO (pos_of_int (n lsr 1))
  else XI (pos_of_int (n lsr 1))
let n_of_int n = if n = 0 then N0 else Npos (pos_of_int n)
let rec int_of_pos = function
  | XH -> 1
  | XO p -> 2 * int_of_pos p
  | XI p -> 2 * int_of_pos p + 1
let int_of_n = function N0 -> 0 | Npos p -> int_of_pos p

(* the 256 byte values, preallocated *)
let byte_tbl = Array.init 256 n_of_int

let is_hex c = (c >= '0' && c <= '9') || (c >= 'a' && c <= 'f') || (c >= 'A' && c <= 'F')
let hexval c =
  if c >= '0' && c <= '9' then Char.code c - 48
  else if c >= 'a' && c <= 'f' then Char.code c - 87
  else Char.code c - 55

let all_pred p s = let ok = ref true in String.iter (fun c -> if not (p c) then ok := false) s; !ok

let parse_tok (t : Stdlib.String.t) : tok =
  let len = String.length t in
  if len >= 1 && t.[0] = 'x' && (len - 1) mod 2 = 0 && all_pred is_hex (String.sub t 1 (len - 1)) then begin
    let k = (len - 1) / 2 in
    let rec build i acc =
      if i < 0 then acc
      else build (i - 1) (byte_tbl.(16 * hexval t.[1 + 2 * i] + hexval t.[2 + 2 * i]) :: acc)
    in
    TB (build (k - 1) [])
  end
  else if all_pred (fun c -> c >= '0' && c <= '9') t && len <= 18 then
    TN (n_of_int (int_of_string t))
  else begin
    let rec build i acc = if i < 0 then acc else build (i - 1) (byte_tbl.(Char.code t.[i]) :: acc) in
    TS (build (len - 1) [])
  end

let print_tok buf (t : tok) =
  match t with
  | TN n -> Buffer.add_string buf (string_of_int (int_of_n n))
  | TB l ->
      Buffer.add_char buf 'x';
      List.iter (fun b -> Buffer.add_string buf (Printf.sprintf "%02x" (int_of_n b))) l
  | TS l -> List.iter (fun c -> Buffer.add_char buf (Char.chr (int_of_n c))) l

let () =
  let file = Sys.argv.(1) in
  let flags = ref [] in
  for i = Array.length Sys.argv - 1 downto 2 do
    flags := n_of_int (int_of_string Sys.argv.(i)) :: !flags
  done;
  let ic = open_in file in
  let buf = Buffer.create 65536 in
  (try
     while true do
       let line = input_line ic in
       let toks = List.filter (fun s -> s <> "") (String.split_on_char ' ' line) in
       let toks = List.map parse_tok toks in
       let out = dispatch_flags !flags toks in
       Buffer.clear buf;
       List.iteri (fun i t -> if i > 0 then Buffer.add_char buf ' '; print_tok buf t) out;
       print_string (Buffer.contents buf);
       print_newline ()
     done
   with End_of_file -> ());
  close_in ic
