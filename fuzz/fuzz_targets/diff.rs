//! Differential search (NOT a proof, NOT a verdict): the library of /repo's current working tree against the audited
//! baseline snapshot (/verif/baseline), same input, same calls.  A difference is printed as a case line of the
//! correspondence protocol (`DIFF-CASE ...`); the check then runs that line through the implementation and the
//! verified model and decides there.
#![no_main]
use libfuzzer_sys::fuzz_target;

fn hexs(b: &[u8]) -> String {
    let mut s = String::with_capacity(1 + 2 * b.len());
    s.push('x');
    for x in b {
        s.push_str(&format!("{:02x}", x));
    }
    s
}

/// Long and structured generator inputs from short fuzzer data: mode 0 as is; 1 run-length pairs (byte, count-1);
/// 2 the payload repeated 1 + 8*k times -- capped at 96 KiB.
fn expand(mode: u8, p: &[u8]) -> Vec<u8> {
    const CAP: usize = 96 * 1024;
    match mode & 3 {
        1 => {
            let mut out = Vec::new();
            for c in p.chunks(2) {
                let n = 1 + *c.get(1).unwrap_or(&0) as usize * 5;
                for _ in 0..n {
                    if out.len() >= CAP { break; }
                    out.push(c[0]);
                }
            }
            out
        }
        2 => {
            if p.len() < 2 { return p.to_vec(); }
            let k = 1 + p[0] as usize * 8;
            let mut out = Vec::new();
            for _ in 0..k {
                if out.len() + p.len() > CAP { break; }
                out.extend_from_slice(&p[1..]);
            }
            out
        }
        _ => p.to_vec(),
    }
}

macro_rules! lib_ops {
    ($modname:ident, $lib:ident) => {
        mod $modname {
            use $lib::generate::GeneratorOptions;
            use $lib::hash::HexStringPrefix;
            use $lib::length::DataLengthProcessingMode;
            use $lib::hash::body::FuzzyHashBody;
            use $lib::hash::checksum::FuzzyHashChecksum;
            use $lib::{ComparisonConfiguration, FuzzyHashType, GeneratorType};

            fn bin<T: FuzzyHashType>(h: &T) -> String {
                let mut buf = vec![0u8; T::SIZE_IN_BYTES];
                h.store_into_bytes(&mut buf).unwrap();
                super::hexs(&buf)
            }
            fn res<T: FuzzyHashType, E: core::fmt::Debug>(r: Result<T, E>) -> String {
                match r {
                    Ok(h) => format!("ok {}", bin(&h)),
                    Err(e) => format!("err {:?}", e),
                }
            }
            fn options(bits: u8) -> GeneratorOptions {
                let mut o = GeneratorOptions::new();
                o.length_processing_mode(if bits & 1 != 0 { DataLengthProcessingMode::Conservative } else { DataLengthProcessingMode::Optimistic });
                o.pure_integer_qratio_computation(bits & 2 != 0);
                o.allow_small_size_files(bits & 4 != 0);
                o.allow_statistically_weak_buckets_half(bits & 8 != 0);
                o.allow_statistically_weak_buckets_quarter(bits & 16 != 0);
                o
            }
            macro_rules! run_t {
                ($T:ty, $op:expr, $aux:expr, $p:expr) => {{
                    type T = $T;
                    let (op, aux, p): (u8, u8, &[u8]) = ($op, $aux, $p);
                    (|| -> String
            {
                let size = T::SIZE_IN_BYTES;
                match op {
                    0 => {
                        let mode = match aux % 3 { 0 => None, 1 => Some(HexStringPrefix::WithVersion), _ => Some(HexStringPrefix::Empty) };
                        res(T::from_str_bytes(p, mode))
                    }
                    1 => res(T::try_from(p)),
                    2 => {
                        if p.len() < 2 * size { return "short".into(); }
                        match (T::try_from(&p[..size]), T::try_from(&p[size..2 * size])) {
                            (Ok(a), Ok(b)) => {
                                let (mut ca, mut cb) = (a.clone(), b.clone());
                                ca.clear_checksum();
                                cb.clear_checksum();
                                format!("{} {} {} {} {} {} {}", a.compare_with_config(&b, ComparisonConfiguration::Default),
                                        a.compare_with_config(&b, ComparisonConfiguration::NoLength), b.compare(&a), a.compare(&a),
                                        ca.compare(&cb), (a == b) as u8, T::max_distance(ComparisonConfiguration::Default))
                            }
                            _ => "hasherr".into(),
                        }
                    }
                    3 => {
                        if p.is_empty() { return "short".into(); }
                        let step = 1 + p[0] as usize * if aux & 0x80 != 0 { 37 } else { 1 };
                        let data = super::expand(aux >> 5, &p[1..]);
                        let mut g = $lib::generate::Generator::<T>::new();
                        for c in data.chunks(step) {
                            g.update(c);
                        }
                        let l = g.processed_len();
                        let g2 = g.clone();
                        format!("{:?} {} {}", l, res(g.finalize_with_options(&options(aux & 31))), res(g2.finalize()))
                    }
                    4 => {
                        if p.len() < size + 1 { return "short".into(); }
                        match T::try_from(&p[..size]) {
                            Err(_) => "hasherr".into(),
                            Ok(h) => {
                                let mut buf = p[size..].to_vec();
                                let r = match aux % 3 {
                                    0 => h.store_into_bytes(&mut buf),
                                    1 => h.store_into_str_bytes(&mut buf, HexStringPrefix::WithVersion),
                                    _ => h.store_into_str_bytes(&mut buf, HexStringPrefix::Empty),
                                };
                                format!("{:?} {} {}", r, super::hexs(&buf), h)
                            }
                        }
                    }
                    5 => {
                        let k = p.iter().position(|&c| c == b'|').unwrap_or(p.len() / 2);
                        match (core::str::from_utf8(&p[..k]), core::str::from_utf8(&p[(k + 1).min(p.len())..])) {
                            (Ok(l), Ok(r)) => match (l.parse::<T>(), r.parse::<T>()) {
                                (Ok(a), Ok(b)) => format!("ok {}", a.compare(&b)),
                                (Err(e), _) => format!("err Left {:?}", e),
                                (_, Err(e)) => format!("err Right {:?}", e),
                            },
                            _ => "notutf8".into(),
                        }
                    }
                    7 => match core::str::from_utf8(p) {
                        Ok(st) => format!("{} {} {} {}", res(st.parse::<T>()), res(T::from_str_with(st, None)),
                                          res(T::from_str_with(st, Some(HexStringPrefix::WithVersion))), res(T::from_str_with(st, Some(HexStringPrefix::Empty)))),
                        Err(_) => "notutf8".into(),
                    },
                    _ => {
                        if p.len() < size { return "short".into(); }
                        match T::try_from(&p[..size]) {
                            Err(_) => "hasherr".into(),
                            Ok(mut h) => {
                                let i = aux as usize % T::NUMBER_OF_BUCKETS;
                                let s = format!("{} {} {} {} {} {} {}", super::hexs(h.checksum().data()), h.length().value(), h.qratios().value(),
                                                h.qratios().q1ratio(), h.qratios().q2ratio(), super::hexs(h.body().data()), h.body().quartile(i));
                                h.clear_checksum();
                                format!("{} {}", s, bin(&h))
                            }
                        }
                    }
                }
            })()
                }};
            }
            pub fn run(op: u8, v: u8, aux: u8, p: &[u8]) -> String {
                match v % 5 {
                    0 => run_t!($lib::hashes::Short, op, aux, p),
                    1 => run_t!($lib::hashes::Normal, op, aux, p),
                    2 => run_t!($lib::hashes::NormalWithLongChecksum, op, aux, p),
                    3 => run_t!($lib::hashes::Long, op, aux, p),
                    _ => run_t!($lib::hashes::LongWithLongChecksum, op, aux, p),
                }
            }
            pub fn cmpstr(v: u8, l: &str, r: &str) -> String {
                match v % 5 {
                    0 => format!("{:?}", $lib::compare_with::<$lib::hashes::Short>(l, r).map_err(|e| (e.side(), e.inner_err()))),
                    1 => format!("{:?}", $lib::compare_with::<$lib::hashes::Normal>(l, r).map_err(|e| (e.side(), e.inner_err()))),
                    2 => format!("{:?}", $lib::compare_with::<$lib::hashes::NormalWithLongChecksum>(l, r).map_err(|e| (e.side(), e.inner_err()))),
                    3 => format!("{:?}", $lib::compare_with::<$lib::hashes::Long>(l, r).map_err(|e| (e.side(), e.inner_err()))),
                    _ => format!("{:?}", $lib::compare_with::<$lib::hashes::LongWithLongChecksum>(l, r).map_err(|e| (e.side(), e.inner_err()))),
                }
            }
        }
    };
}

lib_ops!(cur, tlsh);
lib_ops!(base, tlsh_base);

const VN: [&str; 5] = ["S", "N", "NL", "L", "LL"];
const SIZES: [usize; 5] = [15, 35, 37, 67, 69];

fn case_lines(op: u8, v: u8, aux: u8, p: &[u8]) -> Vec<String> {
    let vn = VN[(v % 5) as usize];
    let size = SIZES[(v % 5) as usize];
    match op {
        0 => vec![format!("parse {} {} {}", vn, ["auto", "with", "empty"][(aux % 3) as usize], hexs(p))],
        1 => vec![format!("frombytes {} {}", vn, hexs(p))],
        2 => vec![format!("laws {} {} {}", vn, hexs(&p[..size]), hexs(&p[size..2 * size])),
                  format!("cmp {} {} {} default", vn, hexs(&p[..size]), hexs(&p[size..2 * size])),
                  format!("cmp {} {} {} nolength", vn, hexs(&p[..size]), hexs(&p[size..2 * size]))],
        3 => {
            let step = 1 + p[0] as usize * if aux & 0x80 != 0 { 37 } else { 1 };
            let data = expand(aux >> 5, &p[1..]);
            let mut s = format!("hist {}", vn);
            for c in data.chunks(step) {
                s.push_str(&format!(" u {}", hexs(c)));
            }
            s.push_str(&format!(" l f {} c fd", aux & 31));
            vec![s]
        }
        4 => match aux % 3 {
            0 => vec![format!("storebytes {} {} {}", vn, hexs(&p[..size]), hexs(&p[size..]))],
            1 => vec![format!("fmt {} {} with {}", vn, hexs(&p[..size]), hexs(&p[size..]))],
            _ => vec![format!("fmt {} {} empty {}", vn, hexs(&p[..size]), hexs(&p[size..]))],
        },
        5 => {
            let k = p.iter().position(|&c| c == b'|').unwrap_or(p.len() / 2);
            vec![format!("cmpstr {} {} {}", vn, hexs(&p[..k]), hexs(&p[(k + 1).min(p.len())..]))]
        }
        7 => vec![format!("fromstr {} {}", vn, hexs(p)), format!("parse {} with {}", vn, hexs(p)), format!("parse {} empty {}", vn, hexs(p))],
        _ => vec![format!("parts {} {}", vn, hexs(&p[..size])), format!("clearcks {} {}", vn, hexs(&p[..size])),
                  format!("quartile {} {} {}", vn, hexs(&p[..size]), aux as usize % [48, 128, 128, 256, 256][(v % 5) as usize])],
    }
}

fuzz_target!(|data: &[u8]| {
    if data.len() < 3 {
        return;
    }
    // VERIF_FUZZ_OPS: comma-separated list of operation numbers this run may use
    let allowed: Vec<u8> = std::env::var("VERIF_FUZZ_OPS").ok().map(|s| s.split(',').filter_map(|x| x.parse().ok()).collect()).unwrap_or_else(|| (0..8).collect());
    if allowed.is_empty() {
        return;
    }
    let op = allowed[data[0] as usize % allowed.len()];
    let (v, aux, p) = (data[1], data[2], &data[3..]);
    let a = std::panic::catch_unwind(|| cur::run(op, v, aux, p)).unwrap_or_else(|_| "PANIC".into());
    let b = std::panic::catch_unwind(|| base::run(op, v, aux, p)).unwrap_or_else(|_| "PANIC".into());
    let mut differ = a != b;
    if !differ && op == 5 {
        let k = p.iter().position(|&c| c == b'|').unwrap_or(p.len() / 2);
        if let (Ok(l), Ok(r)) = (core::str::from_utf8(&p[..k]), core::str::from_utf8(&p[(k + 1).min(p.len())..])) {
            differ = cur::cmpstr(v, l, r) != base::cmpstr(v, l, r);
        }
    }
    if differ && a != "short" && a != "notutf8" {
        for l in case_lines(op, v, aux, p) {
            println!("DIFF-CASE {}", l);
        }
        println!("DIFF-OUTPUTS current=`{}` baseline=`{}`", &a[..a.len().min(200)], &b[..b.len().min(200)]);
        std::process::abort();
    }
});
