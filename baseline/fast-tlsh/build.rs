// SPDX-License-Identifier: MIT
// SPDX-FileCopyrightText: Copyright (C) 2024 Tsukasa OI <floss_ssdeep@irq.a4lg.com>.

extern crate version_check as rustc;

fn main() {
    // Avoid unnecessary rebuilding.
    println!("cargo:rerun-if-changed=build.rs");

    // Module: core::error
    // unstable: 1.65-1.80 (not implemented)
    //   stable: 1.81-
    println!(
        "cargo:rustc-check-cfg=cfg(\
            fast_tlsh_error_in_core, \
            values(\
                \"stable\"\
            )\
        )"
    );
    if rustc::is_min_version("1.81.0").unwrap_or(false) {
        println!("cargo:rustc-cfg=fast_tlsh_error_in_core=\"stable\"");
    }

    // Other cfgs (rustc-check-cfg)
    println!("cargo:rustc-check-cfg=cfg(fast_tlsh_tests_without_debug_assertions)");
    println!("cargo:rustc-check-cfg=cfg(fast_tlsh_tests_reduce_on_miri)");
    println!("cargo:rustc-check-cfg=cfg(fast_tlsh_verif)");
}
