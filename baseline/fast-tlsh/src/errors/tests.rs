// SPDX-License-Identifier: Apache-2.0 OR MIT
// SPDX-FileCopyrightText: Copyright (C) 2024 Tsukasa OI <floss_ssdeep@irq.a4lg.com>.

//! Tests: [`crate::errors`].

#![cfg(test)]

use super::{GeneratorError, GeneratorErrorCategory, OperationError, ParseError};

#[cfg(all(feature = "easy-functions", feature = "std"))]
use super::GeneratorOrIOError;
#[cfg(feature = "easy-functions")]
use super::{ParseErrorEither, ParseErrorSide};

#[test]
fn parse_error_impls() {
    // Display
    assert_eq!(
        format!("{err}", err = ParseError::LengthIsTooLarge),
        "length field is too large"
    );
    assert_eq!(
        format!("{err}", err = ParseError::InvalidPrefix),
        "encountered an invalid prefix"
    );
    assert_eq!(
        format!("{err}", err = ParseError::InvalidCharacter),
        "encountered an invalid character"
    );
    assert_eq!(
        format!("{err}", err = ParseError::InvalidStringLength),
        "string length is invalid"
    );
    assert_eq!(
        format!("{err}", err = ParseError::InvalidChecksum),
        "has an invalid checksum field"
    );
}

#[test]
fn operation_error_impls() {
    // Display
    assert_eq!(
        format!("{err}", err = OperationError::BufferIsTooSmall),
        "buffer is too small to store the result"
    );
}

#[test]
fn generator_error_impls() {
    // Display
    assert_eq!(
        format!("{err}", err = GeneratorError::TooLargeInput),
        "input data is too large to process"
    );
    assert_eq!(
        format!("{err}", err = GeneratorError::TooSmallInput),
        "input data is too small to process"
    );
    assert_eq!(
        format!("{err}", err = GeneratorError::BucketsAreHalfEmpty),
        "approximately half or more effective buckets are empty"
    );
    assert_eq!(
        format!("{err}", err = GeneratorError::BucketsAreThreeQuarterEmpty),
        "approximately 3/4 or more effective buckets are empty"
    );
}

#[test]
fn generator_error_to_category_sizes() {
    assert_eq!(
        GeneratorError::TooLargeInput.category(),
        GeneratorErrorCategory::DataLength
    );
    assert_eq!(
        GeneratorError::TooSmallInput.category(),
        GeneratorErrorCategory::DataLength
    );
}

#[cfg(feature = "easy-functions")]
#[test]
fn parse_error_either_basic() {
    let side1 = ParseErrorSide::Left;
    let side2 = ParseErrorSide::Right;
    let inner1 = ParseError::InvalidStringLength;
    let inner2 = ParseError::LengthIsTooLarge;
    let err1 = ParseErrorEither(side1, inner1);
    let err2 = ParseErrorEither(side2, inner2);
    // Implementation: Display
    assert_eq!(
        format!("{err1}"),
        "error occurred while parsing fuzzy hash 1 (string length is invalid)"
    );
    assert_eq!(
        format!("{err2}"),
        "error occurred while parsing fuzzy hash 2 (length field is too large)"
    );
    // Decomposition
    assert_eq!(err1.side(), side1);
    assert_eq!(err2.side(), side2);
    assert_eq!(err1.inner_err(), inner1);
    assert_eq!(err2.inner_err(), inner2);
}

#[cfg(all(feature = "easy-functions", feature = "std"))]
#[test]
fn generator_or_io_error_internals() {
    use std::error::Error as _;
    use std::io::{Error, ErrorKind};

    // GeneratorError
    let orig_inner = GeneratorError::TooSmallInput;
    let err = GeneratorOrIOError::from(orig_inner);
    let inner = err
        .source()
        .unwrap()
        .downcast_ref::<GeneratorError>()
        .unwrap();
    assert_eq!(inner, &GeneratorError::TooSmallInput);
    assert_eq!(format!("{err}"), format!("{inner}"));

    // IOError
    let orig_inner = Error::from(ErrorKind::NotFound);
    let err = GeneratorOrIOError::from(orig_inner);
    let inner = err.source().unwrap().downcast_ref::<Error>().unwrap();
    assert_eq!(inner.kind(), ErrorKind::NotFound);
    assert_eq!(format!("{err}"), format!("{inner}"));
}
