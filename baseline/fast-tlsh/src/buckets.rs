// SPDX-License-Identifier: Apache-2.0 OR MIT
// SPDX-FileCopyrightText: Copyright 2013 Trend Micro Incorporated
// SPDX-FileCopyrightText: Copyright (C) 2024 Tsukasa OI <floss_ssdeep@irq.a4lg.com>.

//! The TLSH buckets and their mappings.

use crate::buckets::constrained::{FuzzyHashBucketMapper, FuzzyHashBucketsInfo};
use crate::generate::bucket_aggregation;
use crate::hash::body::{BODY_SIZE_LONG, BODY_SIZE_NORMAL, BODY_SIZE_SHORT};
use crate::pearson::{tlsh_b_mapping_256, tlsh_b_mapping_48};

/// The effective number of buckets on the short variant (with 48 buckets).
///
/// On this variant, we have at least 49 physical buckets but the last one is
/// used only to drain outliers.
///
/// In the official TLSH implementation, the variant with this number of
/// buckets is called "min hash".
pub const NUM_BUCKETS_SHORT: usize = 48;
/// The effective number of buckets on the normal variant.
///
/// On this variant, we have 256 physical buckets but only the first half
/// (128 buckets) are used to generate a fuzzy hash.
///
/// In the official TLSH implementation, the variant with this number of
/// buckets is called "compact hash".
pub const NUM_BUCKETS_NORMAL: usize = 128;
/// The effective number of buckets on the long variant (with 256 buckets).
///
/// In the official TLSH implementation, the variant with this number of
/// buckets is called "full hash".
pub const NUM_BUCKETS_LONG: usize = 256;

// Those sizes must be divisible by 4.
static_assertions::const_assert_eq!(NUM_BUCKETS_SHORT % 4, 0);
static_assertions::const_assert_eq!(NUM_BUCKETS_NORMAL % 4, 0);
static_assertions::const_assert_eq!(NUM_BUCKETS_LONG % 4, 0);

/// The module containing private traits (along with its implementations).
pub(crate) mod constrained {
    use super::*;

    /// The private part.
    mod private {
        /// The sealed trait.
        pub trait Sealed {}
    }

    /// The trait to represent a bucket mapping.
    pub trait FuzzyHashBucketMapper: private::Sealed {
        /// Raw bucket array type.
        type RawBucketType;
        /// Raw body type.
        type RawBodyType;
        /// Minimum non-zero buckets to be filled (inclusive).
        ///
        /// This is approximately half of the number of buckets but there's an
        /// exception of the short variant (slightly lower than the half).
        const MIN_NONZERO_BUCKETS: usize;
        /// TLSH's B (bucket) mapping suitable for corresponding implementation.
        fn b_mapping(b0: u8, b1: u8, b2: u8, b3: u8) -> u8;
        /// Denotes whether the B (bucket) mapping function is
        /// constrained to the bucket size.
        ///
        /// If this value is [`true`], all values returned by
        /// [`b_mapping()`](Self::b_mapping()) are less than the number of the
        /// buckets.  If not, some may be equal to or greater than that and will
        /// need to ignore such values by some means.
        const IS_B_MAPPING_CONSTRAINED_WITHIN_BUCKETS: bool;
        /// Bucket aggregation function.
        fn aggregate_buckets(
            out: &mut Self::RawBodyType,
            buckets: &Self::RawBucketType,
            q1: u32,
            q2: u32,
            q3: u32,
        );
    }

    /// A [`FuzzyHashBucketMapper`] implementation to switch implementation
    /// by the number of buckets.
    pub struct FuzzyHashBucketsInfo<const SIZE_BUCKETS: usize>;

    // Short (48 bucket) bucket mapping implementation
    impl private::Sealed for FuzzyHashBucketsInfo<NUM_BUCKETS_SHORT> {}
    impl FuzzyHashBucketMapper for FuzzyHashBucketsInfo<NUM_BUCKETS_SHORT> {
        type RawBucketType = [u32; NUM_BUCKETS_SHORT];
        type RawBodyType = [u8; BODY_SIZE_SHORT];
        const MIN_NONZERO_BUCKETS: usize = 18;
        #[inline(always)]
        fn b_mapping(b0: u8, b1: u8, b2: u8, b3: u8) -> u8 {
            tlsh_b_mapping_48(b0, b1, b2, b3)
        }
        const IS_B_MAPPING_CONSTRAINED_WITHIN_BUCKETS: bool = false;
        #[inline(always)]
        fn aggregate_buckets(
            out: &mut Self::RawBodyType,
            buckets: &Self::RawBucketType,
            q1: u32,
            q2: u32,
            q3: u32,
        ) {
            bucket_aggregation::aggregate_48(out, buckets, q1, q2, q3);
        }
    }

    // Normal (128 bucket) bucket mapping implementation
    impl private::Sealed for FuzzyHashBucketsInfo<NUM_BUCKETS_NORMAL> {}
    impl FuzzyHashBucketMapper for FuzzyHashBucketsInfo<NUM_BUCKETS_NORMAL> {
        type RawBucketType = [u32; NUM_BUCKETS_NORMAL];
        type RawBodyType = [u8; BODY_SIZE_NORMAL];
        const MIN_NONZERO_BUCKETS: usize = NUM_BUCKETS_NORMAL / 2 + 1;
        #[inline(always)]
        fn b_mapping(b0: u8, b1: u8, b2: u8, b3: u8) -> u8 {
            // Note: use 256 bucket mapping (only first 128 for the hash body)
            tlsh_b_mapping_256(b0, b1, b2, b3)
        }
        const IS_B_MAPPING_CONSTRAINED_WITHIN_BUCKETS: bool = false;
        #[inline(always)]
        fn aggregate_buckets(
            out: &mut Self::RawBodyType,
            buckets: &Self::RawBucketType,
            q1: u32,
            q2: u32,
            q3: u32,
        ) {
            bucket_aggregation::aggregate_128(out, buckets, q1, q2, q3);
        }
    }

    // Long (256 bucket) bucket mapping implementation
    impl private::Sealed for FuzzyHashBucketsInfo<NUM_BUCKETS_LONG> {}
    impl FuzzyHashBucketMapper for FuzzyHashBucketsInfo<NUM_BUCKETS_LONG> {
        type RawBucketType = [u32; NUM_BUCKETS_LONG];
        type RawBodyType = [u8; BODY_SIZE_LONG];
        const MIN_NONZERO_BUCKETS: usize = NUM_BUCKETS_LONG / 2 + 1;
        #[inline(always)]
        fn b_mapping(b0: u8, b1: u8, b2: u8, b3: u8) -> u8 {
            tlsh_b_mapping_256(b0, b1, b2, b3)
        }
        const IS_B_MAPPING_CONSTRAINED_WITHIN_BUCKETS: bool = true;
        #[inline(always)]
        fn aggregate_buckets(
            out: &mut Self::RawBodyType,
            buckets: &Self::RawBucketType,
            q1: u32,
            q2: u32,
            q3: u32,
        ) {
            bucket_aggregation::aggregate_256(out, buckets, q1, q2, q3);
        }
    }

    /// The trait representing a "longer" bucket mapping implementation.
    ///
    /// On 48 bucket (short) variants of the fuzzy hash, the checksum value
    /// cannot have the length of 3 (long).
    ///
    /// This trait is implemented by bucket mappers with 3-byte checksum
    /// is possible to define.
    pub trait LongFuzzyHashBucketMapper: FuzzyHashBucketMapper {}
    impl LongFuzzyHashBucketMapper for FuzzyHashBucketsInfo<NUM_BUCKETS_NORMAL> {}
    impl LongFuzzyHashBucketMapper for FuzzyHashBucketsInfo<NUM_BUCKETS_LONG> {}
}

/// TLSH bucket data.
///
/// By default, it consists of 256-entry of [`u32`] buckets to reduce branches.
///
/// If the feature `opt-low-memory-buckets` is enabled, the number of entries
/// will be reduced to the actual effective bucket size (`SIZE_BUCKETS`).
#[derive(Debug, Clone, PartialEq, Eq)]
#[repr(align(16))]
pub(crate) struct FuzzyHashBucketsData<const SIZE_BUCKETS: usize>
where
    FuzzyHashBucketsInfo<SIZE_BUCKETS>: FuzzyHashBucketMapper,
{
    /// The contents of the buckets.
    #[cfg(not(feature = "opt-low-memory-buckets"))]
    pub(crate) buckets: [u32; 256],
    /// The contents of the buckets.
    #[cfg(feature = "opt-low-memory-buckets")]
    pub(crate) buckets: [u32; SIZE_BUCKETS],
}
impl<const SIZE_BUCKETS: usize> FuzzyHashBucketsData<SIZE_BUCKETS>
where
    FuzzyHashBucketsInfo<SIZE_BUCKETS>: FuzzyHashBucketMapper,
{
    /// Creates the new buckets object.
    pub(crate) fn new() -> Self {
        cfg_if::cfg_if! {
            if #[cfg(not(feature = "opt-low-memory-buckets"))] {
                Self { buckets: [0; 256] }
            } else {
                Self { buckets: [0; SIZE_BUCKETS] }
            }
        }
    }

    /// Returns the reference to the data (as a slice).
    #[inline(always)]
    pub(crate) fn data(&self) -> &[u32] {
        &self.buckets[..SIZE_BUCKETS]
    }

    /// Increment a bucket specified by the index.
    ///
    /// By default, it increments the specified bucket no matter what.
    /// Because the index is in [`u8`] and we have 256-entry buckets,
    /// it will not cause any buffer overflow (memory-safe).
    ///
    /// If you turn on the feature `opt-low-memory-buckets`, it ignores
    /// the index which does not fit in the internal bucket array.
    /// It will make the program slightly slower but also is memory-safe.
    #[inline(always)]
    pub(crate) fn increment(&mut self, index: u8) {
        let index = index as usize;
        #[cfg(feature = "opt-low-memory-buckets")]
        if !FuzzyHashBucketsInfo::<SIZE_BUCKETS>::IS_B_MAPPING_CONSTRAINED_WITHIN_BUCKETS
            && index >= SIZE_BUCKETS
        {
            return;
        }
        self.buckets[index] = self.buckets[index].wrapping_add(1);
    }
}
