// SPDX-License-Identifier: Apache-2.0 OR MIT
// SPDX-FileCopyrightText: Copyright (C) 2024 Tsukasa OI <floss_ssdeep@irq.a4lg.com>.

//! Small utilities for the parser.

pub(crate) mod bits;
pub(crate) mod hex_str;
