// SPDX-License-Identifier: Apache-2.0 OR MIT
// SPDX-FileCopyrightText: Copyright (C) 2024 Tsukasa OI <floss_ssdeep@irq.a4lg.com>.

//! Tests: [`crate::length`].

#![cfg(test)]

use super::{
    encode, naive, ConstrainedLengthProcessingInfo, DataLengthProcessingMode, DataLengthValidity,
    FuzzyHashLengthEncoding, LengthProcessingInfo, ENCODED_INDICES_BY_LEADING_ZEROS,
    ENCODED_VALUE_SIZE, TOP_VALUE_BY_ENCODING,
};

use crate::buckets::constrained::{FuzzyHashBucketMapper, FuzzyHashBucketsInfo};
use crate::buckets::{NUM_BUCKETS_LONG, NUM_BUCKETS_NORMAL, NUM_BUCKETS_SHORT};
use crate::errors::ParseError;

#[test]
fn len_prerequisites() {
    // Maximum size for the encoding 0 must be 1 for current algorithm of "encode".
    assert_eq!(TOP_VALUE_BY_ENCODING[0], 1);
    for len_range in TOP_VALUE_BY_ENCODING.as_slice().windows(2) {
        let bottom = len_range[0];
        let top = len_range[1];
        // TOP_VALUE_BY_ENCODING must be a strictly increasing array.
        assert!(bottom < top);
        // Count of leading zeros must be decreasing but must not too steep.
        let clz_b = bottom.leading_zeros();
        let clz_t = top.leading_zeros();
        let clz_diff = clz_b.checked_sub(clz_t).unwrap();
        assert!(clz_diff <= 1);
    }
}

#[test]
fn length_processing_info_params() {
    fn test_params<T: ConstrainedLengthProcessingInfo>() {
        // Implementation-defined limit: MIN != 0
        assert_ne!(T::MIN, 0);
        // Implementation-defined limit: MAX != u32::MAX
        assert_ne!(T::MAX, u32::MAX);
        // Hard constraint: MAX == module's MAX
        assert_eq!(T::MAX, super::MAX);
        // Hard constraints: MIN <= MIN_CONSERVATIVE <= MAX
        assert!(T::MIN <= T::MIN_CONSERVATIVE && T::MIN_CONSERVATIVE <= T::MAX);
        // Implementation-defined limit: MIN_CONSERVATIVE < MAX
        assert!(T::MIN_CONSERVATIVE < T::MAX);
    }
    test_params::<LengthProcessingInfo<NUM_BUCKETS_SHORT>>();
    test_params::<LengthProcessingInfo<NUM_BUCKETS_NORMAL>>();
    test_params::<LengthProcessingInfo<NUM_BUCKETS_LONG>>();
}

#[test]
fn data_length_processing_mode_default() {
    // Check its default value.
    assert_eq!(
        <DataLengthProcessingMode as Default>::default(),
        DataLengthProcessingMode::Optimistic
    );
}

#[test]
fn data_length_validity_values_and_lengths() {
    // Both minimum and maximum sizes are valid.
    fn test_lengths<const SIZE_BUCKETS: usize>()
    where
        FuzzyHashBucketsInfo<SIZE_BUCKETS>: FuzzyHashBucketMapper,
        LengthProcessingInfo<SIZE_BUCKETS>: ConstrainedLengthProcessingInfo,
    {
        // Size 0 is too small for all modes.
        assert_eq!(
            DataLengthValidity::new::<SIZE_BUCKETS>(0),
            DataLengthValidity::TooSmall
        );
        // MIN - 1
        assert_eq!(
            DataLengthValidity::new::<SIZE_BUCKETS>(LengthProcessingInfo::<SIZE_BUCKETS>::MIN - 1),
            DataLengthValidity::TooSmall
        );
        // MIN
        if LengthProcessingInfo::<SIZE_BUCKETS>::MIN
            < LengthProcessingInfo::<SIZE_BUCKETS>::MIN_CONSERVATIVE
        {
            // MIN < MIN_CONSERVATIVE
            assert_eq!(
                DataLengthValidity::new::<SIZE_BUCKETS>(LengthProcessingInfo::<SIZE_BUCKETS>::MIN),
                DataLengthValidity::ValidWhenOptimistic
            );
            assert_eq!(
                DataLengthValidity::new::<SIZE_BUCKETS>(
                    LengthProcessingInfo::<SIZE_BUCKETS>::MIN_CONSERVATIVE - 1
                ),
                DataLengthValidity::ValidWhenOptimistic
            );
        } else {
            // MIN == MIN_CONSERVATIVE
            assert_eq!(
                DataLengthValidity::new::<SIZE_BUCKETS>(LengthProcessingInfo::<SIZE_BUCKETS>::MIN),
                DataLengthValidity::Valid
            );
        }
        // MIN_CONSERVATIVE
        assert_eq!(
            DataLengthValidity::new::<SIZE_BUCKETS>(
                LengthProcessingInfo::<SIZE_BUCKETS>::MIN_CONSERVATIVE
            ),
            DataLengthValidity::Valid
        );
        // MAX
        assert_eq!(
            DataLengthValidity::new::<SIZE_BUCKETS>(LengthProcessingInfo::<SIZE_BUCKETS>::MAX),
            DataLengthValidity::Valid
        );
        // MAX + 1
        assert_eq!(
            DataLengthValidity::new::<SIZE_BUCKETS>(LengthProcessingInfo::<SIZE_BUCKETS>::MAX + 1),
            DataLengthValidity::TooLarge
        );
    }
    test_lengths::<NUM_BUCKETS_SHORT>();
    test_lengths::<NUM_BUCKETS_NORMAL>();
    test_lengths::<NUM_BUCKETS_LONG>();
}

#[test]
fn data_length_validity_values_and_errors() {
    assert!(DataLengthValidity::TooSmall.is_err());
    assert!(DataLengthValidity::TooLarge.is_err());
    assert!(!DataLengthValidity::Valid.is_err());
    assert!(!DataLengthValidity::ValidWhenOptimistic.is_err());
    for &mode in &[
        DataLengthProcessingMode::Conservative,
        DataLengthProcessingMode::Optimistic,
    ] {
        assert!(DataLengthValidity::TooSmall.is_err_on(mode));
        assert!(DataLengthValidity::TooLarge.is_err_on(mode));
        assert!(!DataLengthValidity::Valid.is_err_on(mode));
    }
    assert!(
        DataLengthValidity::ValidWhenOptimistic.is_err_on(DataLengthProcessingMode::Conservative)
    );
    assert!(
        !DataLengthValidity::ValidWhenOptimistic.is_err_on(DataLengthProcessingMode::Optimistic)
    );
}

#[test]
fn length_encoding_raw() {
    for lvalue in u8::MIN..=u8::MAX {
        assert_eq!(FuzzyHashLengthEncoding::from_raw(lvalue).value(), lvalue);
    }
}

#[test]
fn length_encoding_str_examples() {
    // Invalid lengths
    for &bytes in &[b"" as &[u8], b"0", b"000"] {
        assert_eq!(
            FuzzyHashLengthEncoding::from_str_bytes(bytes),
            Err(ParseError::InvalidStringLength)
        );
    }
    assert_eq!(
        FuzzyHashLengthEncoding::from_str_bytes(b"00"),
        Ok(FuzzyHashLengthEncoding::from_raw(0x00))
    );
    assert_eq!(
        FuzzyHashLengthEncoding::from_str_bytes(b"12"),
        Ok(FuzzyHashLengthEncoding::from_raw(0x21))
    );
}

#[test]
fn length_encoding_from_str_bytes_endianness() {
    for value in u8::MIN..=u8::MAX {
        let s: String = format!("{value:02X}").chars().rev().collect();
        assert_eq!(
            FuzzyHashLengthEncoding::from_str_bytes(s.as_bytes()),
            Ok(FuzzyHashLengthEncoding::from_raw(value))
        );
    }
}

#[test]
fn length_encoding_validity() {
    // Validness corresponds to ENCODED_VALUE_SIZE.
    for lvalue in u8::MIN..=u8::MAX {
        let l = FuzzyHashLengthEncoding::from_raw(lvalue);
        assert_eq!(l.is_valid(), (l.value() as usize) < ENCODED_VALUE_SIZE);
    }
    // Both minimum and maximum sizes are valid.
    fn test_border_sizes<T: ConstrainedLengthProcessingInfo>() {
        assert!(FuzzyHashLengthEncoding::try_from(T::MIN).is_ok());
        assert!(FuzzyHashLengthEncoding::try_from(T::MIN_CONSERVATIVE).is_ok());
        assert!(FuzzyHashLengthEncoding::try_from(T::MAX).is_ok());
    }
    test_border_sizes::<LengthProcessingInfo<NUM_BUCKETS_SHORT>>();
    test_border_sizes::<LengthProcessingInfo<NUM_BUCKETS_NORMAL>>();
    test_border_sizes::<LengthProcessingInfo<NUM_BUCKETS_LONG>>();
}

#[test]
fn length_encoding_gap_between_ranges() {
    let values: Vec<_> = (u8::MIN..=u8::MAX).collect();
    for window in values.windows(2) {
        let bottom = window[0];
        let top = window[1];
        let range1 = FuzzyHashLengthEncoding::from_raw(bottom).range();
        let range2 = FuzzyHashLengthEncoding::from_raw(top).range();
        if let (Some(range1), Some(range2)) = (range1, range2) {
            // End of range 1 does not overlap with the start of range 2
            // but there's no values between range 1 and 2.
            assert_eq!(*range1.end() + 1, *range2.start());
        }
    }
}

#[test]
fn test_encode() {
    // Test for:
    // 1. Small values
    // 2. Around 2^n
    // 3. Around each top value
    // 4. Around maximum value of u32
    for len in (0..300u32)
        .chain(
            (0..u32::BITS)
                .filter(|&x| 1u32 << x >= 5)
                .flat_map(|x| ((1u32 << x) - 5)..((1u32 << x) + 5)),
        )
        .chain(
            TOP_VALUE_BY_ENCODING
                .as_slice()
                .iter()
                .filter(|&&x| x >= 5)
                .flat_map(|&x| (x - 5)..(x + 5)),
        )
        .chain((u32::MAX - 5)..=u32::MAX)
    {
        assert_eq!(super::encode(len), naive::encode(len));
    }
}

#[test]
fn encode_top_and_above() {
    for (i, &top) in TOP_VALUE_BY_ENCODING.as_slice().iter().enumerate() {
        let encoding = i as u8;
        assert_eq!(encode(top), Some(encoding));
        assert_ne!(top, u32::MAX);
        let above_top = encode(top + 1);
        assert!(above_top.is_none() || above_top == Some(encoding + 1));
    }
}

#[test]
fn property_encoded_indices_by_leading_zeros() {
    for (i, index_range) in ENCODED_INDICES_BY_LEADING_ZEROS
        .as_slice()
        .windows(2)
        .enumerate()
    {
        let clz = i as u32;
        let bottom = index_range[1];
        let top = index_range[0];
        // TOP_VALUE_BY_ENCODING denoted by each ENCODED_INDICES_BY_LEADING_ZEROS
        // shall not be empty.
        assert!(!TOP_VALUE_BY_ENCODING[bottom..top].is_empty());
        // All top values in range shall have the same number of leading zeros.
        for &x in &TOP_VALUE_BY_ENCODING[bottom..top] {
            assert_eq!(x.leading_zeros(), clz);
        }
    }
}
