// Verification hooks (compiled only with `--cfg fast_tlsh_verif`).
//! Dumps the compiled length tables and constants.

/// Dumps the compiled constants of this module.
pub fn dump(f: &mut dyn FnMut(&str, &[u64])) {
    let mut top = [0u64; super::ENCODED_VALUE_SIZE];
    for (d, &s) in top.iter_mut().zip(super::TOP_VALUE_BY_ENCODING.iter()) {
        *d = s as u64;
    }
    f("top_value", &top);
    f("encoded_value_size", &[super::ENCODED_VALUE_SIZE as u64]);
    f("len_max", &[super::MAX as u64]);
    #[cfg(any(
        target_arch = "x86",
        target_arch = "x86_64",
        target_arch = "arm",
        target_arch = "aarch64",
        target_arch = "wasm32",
        target_arch = "wasm64"
    ))]
    {
        let mut clz = [0u64; 33];
        for (d, &s) in clz
            .iter_mut()
            .zip(super::ENCODED_INDICES_BY_LEADING_ZEROS.iter())
        {
            *d = s as u64;
        }
        f("clz_table", &clz);
    }
    use super::ConstrainedLengthProcessingInfo as C;
    use super::LengthProcessingInfo as L;
    use crate::buckets::{NUM_BUCKETS_LONG, NUM_BUCKETS_NORMAL, NUM_BUCKETS_SHORT};
    f(
        "len_min",
        &[
            <L<NUM_BUCKETS_SHORT> as C>::MIN as u64,
            <L<NUM_BUCKETS_NORMAL> as C>::MIN as u64,
            <L<NUM_BUCKETS_LONG> as C>::MIN as u64,
        ],
    );
    f(
        "len_min_conservative",
        &[
            <L<NUM_BUCKETS_SHORT> as C>::MIN_CONSERVATIVE as u64,
            <L<NUM_BUCKETS_NORMAL> as C>::MIN_CONSERVATIVE as u64,
            <L<NUM_BUCKETS_LONG> as C>::MIN_CONSERVATIVE as u64,
        ],
    );
}
