// SPDX-License-Identifier: Apache-2.0 OR MIT
// SPDX-FileCopyrightText: Copyright (C) 2024 Tsukasa OI <floss_ssdeep@irq.a4lg.com>.

//! Easy comparison for two TLSH strings.

#![cfg(feature = "easy-functions")]

use crate::errors::{ParseErrorEither, ParseErrorSide};
use crate::params::ConstrainedFuzzyHashType;
use crate::Tlsh;

/// Compare two fuzzy hashes with specified intermediate fuzzy hash type.
///
/// If a parse error occurs, [`Err`] containing
/// [a parse error](ParseErrorEither) is returned.  Otherwise, [`Ok`] containing
/// the distance-based score is returned.
///
/// # Examples
///
/// ```
/// type CustomTlsh = tlsh::hashes::Short;
///
/// // Distance between rustc 1.66.1–1.67.1 (Linux, x86_64) is 2
/// // on the short variant of TLSH.
/// let result = tlsh::compare_with::<CustomTlsh>(
///     "T140D5F17F44F8AB007AE2AC46E515DC",
///     "T140D5F17F44FCAB007AE2A846E515DC"
/// );
/// assert_eq!(result, Ok(2));
/// ```
///
/// ```
/// use tlsh::{ParseError, ParseErrorEither, ParseErrorSide};
///
/// type CustomTlsh = tlsh::hashes::Short;
///
/// // The parser fails on the right.
/// let result = tlsh::compare_with::<CustomTlsh>(
///     "T140D5F17F44F8AB007AE2AC46E515DC",
///     "TNULL"
/// );
/// let err = result.unwrap_err();
/// assert_eq!(err.side(), ParseErrorSide::Right);
/// assert_eq!(err.inner_err(), ParseError::InvalidStringLength);
/// ```
pub fn compare_with<T: ConstrainedFuzzyHashType>(
    lhs: &str,
    rhs: &str,
) -> Result<u32, ParseErrorEither> {
    let lhs: T = match str::parse(lhs) {
        Ok(value) => value,
        Err(err) => {
            return Err(ParseErrorEither(ParseErrorSide::Left, err));
        }
    };
    let rhs: T = match str::parse(rhs) {
        Ok(value) => value,
        Err(err) => {
            return Err(ParseErrorEither(ParseErrorSide::Right, err));
        }
    };
    Ok(lhs.compare(&rhs))
}

/// Compare two fuzzy hashes.
///
/// If a parse error occurs, [`Err`] containing
/// [a parse error](ParseErrorEither) is returned.  Otherwise, [`Ok`] containing
/// the distance-based score (`0..=2473`) is returned.
///
/// # Examples
///
/// ```
/// // Distance between rustc 1.66.1–1.67.1 (Linux, x86_64) is 9.
/// let result = tlsh::compare(
///     "T12AD5BE86FFE41D17CC268876A9AE472077B2B0032716DBAF1849A7647DDB7C0DF16488",
///     "T1EDD5BE96FFE41D1BCC268C7699AE4720B7B2A0032716DBAF1848A7647DD77C0DF16488"
/// );
/// assert_eq!(result, Ok(9));
/// ```
///
/// ```
/// use tlsh::{ParseError, ParseErrorEither, ParseErrorSide};
///
/// // The parser fails on the right.
/// let result = tlsh::compare(
///     "T12AD5BE86FFE41D17CC268876A9AE472077B2B0032716DBAF1849A7647DDB7C0DF16488",
///     "TNULL"
/// );
/// let err = result.unwrap_err();
/// assert_eq!(err.side(), ParseErrorSide::Right);
/// assert_eq!(err.inner_err(), ParseError::InvalidStringLength);
/// ```
#[inline(always)]
pub fn compare(lhs: &str, rhs: &str) -> Result<u32, ParseErrorEither> {
    compare_with::<Tlsh>(lhs, rhs)
}

mod tests;
