// SPDX-License-Identifier: Apache-2.0 OR MIT
// SPDX-FileCopyrightText: Copyright (C) 2024 Tsukasa OI <floss_ssdeep@irq.a4lg.com>.

//! Types representing specific types of errors.

use core::fmt::{Display, Formatter, Result};

/// An error type representing an error (generally) while parsing a fuzzy hash.
#[derive(Debug, Clone, Copy, PartialEq, Eq)]
#[non_exhaustive]
pub enum ParseError {
    /// The data length field is too large.
    ///
    /// On the string parser or deserializer, this error will not be generated
    /// unless the strict parser is enabled.
    LengthIsTooLarge,
    /// Invalid prefix is encountered.
    ///
    /// This type of error is generated when we need a prefix but cannot find
    /// a valid one (TLSHv1 `"T1"`).
    InvalidPrefix,
    /// An invalid character is encountered.
    InvalidCharacter,
    /// The string length is invalid.
    InvalidStringLength,
    /// The checksum part contained an invalid value.
    InvalidChecksum,
}
impl Display for ParseError {
    fn fmt(&self, f: &mut Formatter<'_>) -> Result {
        f.write_str(match self {
            ParseError::LengthIsTooLarge => "length field is too large",
            ParseError::InvalidPrefix => "encountered an invalid prefix",
            ParseError::InvalidCharacter => "encountered an invalid character",
            ParseError::InvalidStringLength => "string length is invalid",
            ParseError::InvalidChecksum => "has an invalid checksum field",
        })
    }
}
#[cfg(feature = "std")]
#[cfg_attr(feature = "unstable", doc(cfg(all())))]
impl std::error::Error for ParseError {}
#[cfg(all(not(feature = "std"), fast_tlsh_error_in_core = "stable"))]
impl core::error::Error for ParseError {}

/// An error type representing an error (generally) while processing a fuzzy hash.
#[derive(Debug, Clone, Copy, PartialEq, Eq)]
#[non_exhaustive]
pub enum OperationError {
    /// The buffer you specified is too small to finish the operation successfully.
    ///
    /// The reason of this error type is because the buffer (slice) you have
    /// specified is too small for the output format you requested.
    BufferIsTooSmall,
}
impl Display for OperationError {
    fn fmt(&self, f: &mut Formatter<'_>) -> Result {
        f.write_str(match self {
            OperationError::BufferIsTooSmall => "buffer is too small to store the result",
        })
    }
}
#[cfg(feature = "std")]
#[cfg_attr(feature = "unstable", doc(cfg(all())))]
impl std::error::Error for OperationError {}
#[cfg(all(not(feature = "std"), fast_tlsh_error_in_core = "stable"))]
impl core::error::Error for OperationError {}

/// An error category type for [a generator error](GeneratorError).
#[derive(Debug, Clone, Copy, PartialEq, Eq)]
#[non_exhaustive]
pub enum GeneratorErrorCategory {
    /// The error is (mainly) about the length of the data.
    DataLength,

    /// The error is (mainly) about the distribution of the data
    /// (or, repetitiveness).
    DataDistribution,
}

/// An error type representing an error while generating a fuzzy hash.
#[derive(Debug, Clone, Copy, PartialEq, Eq)]
#[non_exhaustive]
pub enum GeneratorError {
    /// The input data is too large to process.
    TooLargeInput,
    /// The input data is too small to process.
    ///
    /// Whether the input data is too small is normally determined by the value
    /// of [`DataLengthProcessingMode`](crate::length::DataLengthProcessingMode).
    ///
    /// If we prefer compatibility with the original TLSH implementation,
    /// we cannot generate a fuzzy hash from the data smaller than 50 bytes.
    TooSmallInput,
    /// Too many buckets (roughly half or more) are empty.
    ///
    /// This error indicates the input data is either too small or too
    /// repetitive so that enough number of buckets cannot be filled
    /// (i.e. even if we force to output a fuzzy hash, the result might be
    /// statistically unreliable).
    BucketsAreHalfEmpty,
    /// Too many buckets (roughly 3/4 or more) are empty.
    ///
    /// This is similar to [`BucketsAreHalfEmpty`](Self::BucketsAreHalfEmpty)
    /// but indicates more extreme statistic distribution so that computing
    /// a Q ratio will result in a division by zero.
    BucketsAreThreeQuarterEmpty,
}
impl GeneratorError {
    /// Retrieves the category of the generator error.
    pub fn category(&self) -> GeneratorErrorCategory {
        match *self {
            GeneratorError::TooLargeInput => GeneratorErrorCategory::DataLength,
            GeneratorError::TooSmallInput => GeneratorErrorCategory::DataLength,
            GeneratorError::BucketsAreHalfEmpty => GeneratorErrorCategory::DataDistribution,
            GeneratorError::BucketsAreThreeQuarterEmpty => GeneratorErrorCategory::DataDistribution,
        }
    }
}
impl Display for GeneratorError {
    fn fmt(&self, f: &mut Formatter<'_>) -> Result {
        f.write_str(match self {
            GeneratorError::TooLargeInput => "input data is too large to process",
            GeneratorError::TooSmallInput => "input data is too small to process",
            GeneratorError::BucketsAreHalfEmpty => {
                "approximately half or more effective buckets are empty"
            }
            GeneratorError::BucketsAreThreeQuarterEmpty => {
                "approximately 3/4 or more effective buckets are empty"
            }
        })
    }
}
#[cfg(feature = "std")]
#[cfg_attr(feature = "unstable", doc(cfg(all())))]
impl std::error::Error for GeneratorError {}
#[cfg(all(not(feature = "std"), fast_tlsh_error_in_core = "stable"))]
impl core::error::Error for GeneratorError {}

/// The operand (side) which caused a parse error.
#[cfg(feature = "easy-functions")]
#[derive(Debug, Clone, Copy, PartialEq, Eq)]
pub enum ParseErrorSide {
    /// The left hand side.
    Left,
    /// The right hand side.
    Right,
}

/// The error type representing a parse error for one of the operands
/// specified to the [`compare()`](crate::compare()) function.
#[cfg(feature = "easy-functions")]
#[derive(Debug, Clone, Copy, PartialEq, Eq)]
pub struct ParseErrorEither(pub(crate) ParseErrorSide, pub(crate) ParseError);
#[cfg(feature = "easy-functions")]
impl ParseErrorEither {
    /// Returns which operand caused a parse error.
    pub fn side(&self) -> ParseErrorSide {
        self.0
    }

    /// Returns the inner error.
    pub fn inner_err(&self) -> ParseError {
        self.1
    }
}
#[cfg(feature = "easy-functions")]
impl Display for ParseErrorEither {
    fn fmt(&self, f: &mut Formatter<'_>) -> Result {
        write!(
            f,
            "error occurred while parsing fuzzy hash {side} ({msg})",
            side = match self.side() {
                ParseErrorSide::Left => 1,
                ParseErrorSide::Right => 2,
            },
            msg = self.inner_err()
        )
    }
}
#[cfg(all(feature = "easy-functions", feature = "std"))]
#[cfg_attr(feature = "unstable", doc(cfg(all())))]
impl std::error::Error for ParseErrorEither {}
#[cfg(all(
    feature = "easy-functions",
    not(feature = "std"),
    fast_tlsh_error_in_core = "stable"
))]
impl core::error::Error for ParseErrorEither {}

/// The error type describing either a generator error or an I/O error.
///
/// This type contains either:
/// *   A fuzzy hash generator error ([`GeneratorError`]) or
/// *   An I/O error ([`std::io::Error`]).
#[cfg(all(feature = "easy-functions", feature = "std"))]
#[derive(Debug)]
pub enum GeneratorOrIOError {
    /// An error caused by the fuzzy hash generator.
    GeneratorError(GeneratorError),
    /// An error caused by an internal I/O operation.
    IOError(std::io::Error),
}
#[cfg(all(feature = "easy-functions", feature = "std"))]
impl Display for GeneratorOrIOError {
    fn fmt(&self, f: &mut Formatter<'_>) -> Result {
        match self {
            GeneratorOrIOError::GeneratorError(err) => err.fmt(f),
            GeneratorOrIOError::IOError(err) => err.fmt(f),
        }
    }
}
#[cfg(all(feature = "easy-functions", feature = "std"))]
impl From<GeneratorError> for GeneratorOrIOError {
    // For wrapping with the '?' operator
    fn from(value: GeneratorError) -> Self {
        GeneratorOrIOError::GeneratorError(value)
    }
}
#[cfg(all(feature = "easy-functions", feature = "std"))]
impl From<std::io::Error> for GeneratorOrIOError {
    // For wrapping with the '?' operator
    fn from(value: std::io::Error) -> Self {
        GeneratorOrIOError::IOError(value)
    }
}
#[cfg(all(feature = "easy-functions", feature = "std"))]
impl std::error::Error for GeneratorOrIOError {
    fn source(&self) -> Option<&(dyn std::error::Error + 'static)> {
        match self {
            GeneratorOrIOError::GeneratorError(err) => Some(err),
            GeneratorOrIOError::IOError(err) => Some(err),
        }
    }
}

mod tests;
