// SPDX-License-Identifier: Apache-2.0 OR MIT
// SPDX-FileCopyrightText: Copyright (C) 2024 Tsukasa OI <floss_ssdeep@irq.a4lg.com>.

//! Tests: [`crate::intrinsics`].

#![cfg(test)]

use super::{likely, unlikely};

#[test]
fn test_likely_unlikely() {
    assert!(likely(true));
    assert!(!likely(false));
    assert!(unlikely(true));
    assert!(!unlikely(false));
}
