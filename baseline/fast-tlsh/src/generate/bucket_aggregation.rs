// SPDX-License-Identifier: Apache-2.0 OR MIT
// SPDX-FileCopyrightText: Copyright (C) 2024 Tsukasa OI <floss_ssdeep@irq.a4lg.com>.

//! Bucket aggregation based on quartiles.
//!
//! The [`aggregate_48()`], [`aggregate_128()`] and [`aggregate_256()`]
//! functions convert specified number of buckets (an array of [`u32`]) to
//! the array of [`u8`] (with the 1/4 size of the buckets) based on quartile
//! values.
//!
//! Normally, the 128 bucket variant [`aggregate_128()`] is used.
//!
//! # Algorithm
//!
//! Each bucket value is converted into a dibit by following criteria:
//!
//! Value | Meaning
//! ----- | ---------------------------------------------------------------
//!  `11` | Exceeds (greater than) 25-percentile value from the top (`q3`)
//!  `10` | Exceeds (greater than) 50-percentile value from the top (`q2`)
//!  `01` | Exceeds (greater than) 75-percentile value from the top (`q1`)
//!  `00` | Does not satisfy any of those.
//!
//! Then, they are arranged so that the hexadecimal representation of the byte
//! array corresponds to a *big-endian* integer corresponding bits 0–1 to the
//! bucket 0, bits 2–3 to the bucket 1 and so on (i.e. the *last* byte
//! represents the *first* 4 buckets).
//!
//! Note that, all functions require that:
//!
//! *   `q1 <= q2`
//! *   `q2 <= q3`
//!
//! # Inevitable Unbalance
//!
//! Despite that constraints above and that `q1` through `q3` represent quartile
//! values in reality, we still cannot guarantee that we can have the same
//! number of `0b00` through `0b11` dibit entries because some buckets have
//! the same amount (which is close to a quartile value).
//!
//! To show a quite extreme example, following 50 byte sequence:
//!
//! ```text
//! 000000 59 c7 b0 e5 47 be 4c 06 dc 95 03 c5 16 47 2f 8d  >Y...G.L......G/.<
//! 000010 03 ea 73 d1 c0 b8 79 cd 09 87 b9 1f df f9 7c db  >..s...y.......|.<
//! 000020 38 76 d7 f2 04 de c2 cf 9f 7f ab f0 d5 7a 11 56  >8v...........z.V<
//! 000030 f1 89                                            >..<
//! ```
//!
//! generates weird fuzzy hash like this with an 128 buckets configuration:
//!
//! ```text
//! T11C90440000000000000000000000000000000000000000000000000000000000000000
//! ```
//!
//! This is caused because we have the same amount in all 128 buckets (`1`)
//! after processing the file above and we cannot exceed any of quartile values
//! (all `1`s, making all dibits `0b00`).
//!
//! # Testing
//!
//! `q1`, `q2` and `q3` on the tests are not necessarily constrained to the
//! exact quartile values (computed from the buckets itself) but subject to
//! the constraint: `q1 <= q2 <= q3`.
//!
//! So, all algorithms do not depend on following facts
//! (that are all satisfied on TLSH):
//!
//! *   `q1`, `q2` and `q3` represents exact quartile values.
//! *   There is a bucket that have the same amount as `q1`, `q2` or `q3`.

#[cfg(all(
    feature = "simd-per-arch",
    feature = "opt-simd-bucket-aggregation",
    feature = "detect-features",
    any(target_arch = "x86", target_arch = "x86_64")
))]
use std::arch::is_x86_feature_detected;
#[cfg(all(
    feature = "simd-per-arch",
    feature = "opt-simd-bucket-aggregation",
    feature = "detect-features",
    any(target_arch = "x86", target_arch = "x86_64")
))]
use std::sync::OnceLock;

#[allow(dead_code)]
mod portable_simd;
mod wasm32_simd128;
mod x86_avx2;
mod x86_sse2;
mod x86_ssse3;
#[cfg(fast_tlsh_verif)]
#[allow(missing_docs)]
#[allow(clippy::missing_docs_in_private_items)]
pub(crate) mod verif_hooks;

#[cfg(all(test, feature = "tests-slow"))]
mod fuzzer;

/// The naïve implementation.
#[allow(dead_code)]
pub(crate) mod naive {
    /// Get a quartile value.
    ///
    /// This function converts `value` to a dibit as follows:
    ///
    ///  Value | Meaning
    /// ------ | -------------------------------
    /// `0b11` | Exceeds `q3` (`q3 > value`)
    /// `0b10` | Exceeds `q2` (`q2 > value`)
    /// `0b01` | Exceeds `q1` (`q1 > value`)
    /// `0b00` | Does not satisfy any of those.
    ///
    /// This function requires that:
    ///
    /// *   `q1 <= q2`
    /// *   `q2 <= q3`
    #[inline(always)]
    pub(super) const fn get_quartile(value: u32, q1: u32, q2: u32, q3: u32) -> u8 {
        debug_assert!(q1 <= q2);
        debug_assert!(q2 <= q3);
        if value > q3 {
            3
        } else if value > q2 {
            2
        } else if value > q1 {
            1
        } else {
            0
        }
    }

    /// Generates aggregation functions like [`aggregate_128()`].
    macro_rules! aggregation_func_template {
        {$($name:ident = ($size_small:literal, $size_large:literal);)*} => {
            $(
                #[doc = concat!(
                    "Aggregate ",
                    stringify!($size_large),
                    " buckets into the ",
                    stringify!($size_small),
                    "-byte digest based on three quartiles.\n",
                    "\n",
                    "This function requires that:\n",
                    "*   `q1 <= q2`\n",
                    "*   `q2 <= q3`"
                )]
                #[inline]
                pub fn $name(out: &mut [u8; $size_small], buckets: &[u32; $size_large], q1: u32, q2: u32, q3: u32) {
                    for (out, subbuckets) in out.iter_mut().rev().zip(buckets.as_slice().chunks_exact(4)) {
                        *out = subbuckets.iter().rev().fold(0u8, |x, &b| {
                            let q = get_quartile(b, q1, q2, q3);
                            x << 2 | q
                        });
                    }
                }
            )*
        }
    }

    aggregation_func_template! {
        aggregate_48  = (12,  48);
        aggregate_128 = (32, 128);
        aggregate_256 = (64, 256);
    }
}

/// Generates aggregation functions like [`aggregate_128()`].
macro_rules! aggregation_func_template {
    {$($name:ident = ($size_small:literal, $size_large:literal, $dispatch:ident);)*} => {
        $(
            #[doc = concat!(
                stringify!($size_large),
                "-bucket aggregation function (to be dynamically dispatched).\n",
                "\n",
                "By default, this is a reference to [`naive::aggregate_",
                stringify!($size_large),
                "()`].\n",
                "\n",
                "If the platform is detected to have specific features ",
                "(e.g. SIMD instructions), this is overridden with a reference to the ",
                "suitable function (or its wrapper)."
            )]
            #[allow(clippy::type_complexity)]
            #[cfg(all(
                feature = "simd-per-arch",
                feature = "opt-simd-bucket-aggregation",
                feature = "detect-features",
                any(target_arch = "x86", target_arch = "x86_64")
            ))]
            #[cfg_attr(
                feature = "unstable",
                doc(cfg(all(
                    feature = "simd-per-arch",
                    feature = "opt-simd-bucket-aggregation",
                    feature = "detect-features"
                )))
            )]
            static $dispatch: OnceLock<
                &'static (dyn Fn(&mut [u8; $size_small], &[u32; $size_large], u32, u32, u32) + Sync),
            > = OnceLock::new();

            #[doc = concat!(
                "Aggregate ",
                stringify!($size_large),
                " buckets into the ",
                stringify!($size_small),
                "-byte digest based on three quartiles.\n",
                "\n",
                "This function requires that:\n",
                "*   `q1 <= q2`\n",
                "*   `q2 <= q3`"
            )]
            #[inline]
            pub fn $name(out: &mut [u8; $size_small], buckets: &[u32; $size_large], q1: u32, q2: u32, q3: u32) {
                debug_assert!(q1 <= q2);
                debug_assert!(q2 <= q3);
                cfg_if::cfg_if! {
                    if #[cfg(all(
                        feature = "simd-per-arch",
                        feature = "opt-simd-bucket-aggregation",
                        feature = "detect-features",
                        any(target_arch = "x86", target_arch = "x86_64")
                    ))] {
                        // Detect runtime CPU features, cache and call
                        $dispatch.get_or_init(|| {
                            #[cfg(any(target_arch = "x86", target_arch = "x86_64"))]
                            {
                                if is_x86_feature_detected!("avx2") {
                                    return &|out, buckets, q1, q2, q3| {
                                        #[allow(unsafe_code)]
                                        unsafe {
                                            x86_avx2::$name(out, buckets, q1, q2, q3)
                                        }
                                    };
                                }
                                if is_x86_feature_detected!("ssse3") {
                                    return &|out, buckets, q1, q2, q3| {
                                        #[allow(unsafe_code)]
                                        unsafe {
                                            x86_ssse3::$name(out, buckets, q1, q2, q3)
                                        }
                                    };
                                }
                                if is_x86_feature_detected!("sse2") {
                                    return &|out, buckets, q1, q2, q3| {
                                        #[allow(unsafe_code)]
                                        unsafe {
                                            x86_sse2::$name(out, buckets, q1, q2, q3)
                                        }
                                    };
                                }
                            }
                            &naive::$name
                        })(out, buckets, q1, q2, q3)
                    }
                    else if #[cfg(all(
                        feature = "simd-per-arch",
                        feature = "opt-simd-bucket-aggregation",
                        not(feature = "detect-features"),
                        any(target_arch = "x86", target_arch = "x86_64"),
                        target_feature = "avx2"
                    ))] {
                        #[allow(unsafe_code)]
                        unsafe {
                            x86_avx2::$name(out, buckets, q1, q2, q3)
                        }
                    }
                    else if #[cfg(all(
                        feature = "simd-per-arch",
                        feature = "opt-simd-bucket-aggregation",
                        not(feature = "detect-features"),
                        any(target_arch = "x86", target_arch = "x86_64"),
                        target_feature = "ssse3"
                    ))] {
                        #[allow(unsafe_code)]
                        unsafe {
                            x86_ssse3::$name(out, buckets, q1, q2, q3)
                        }
                    }
                    else if #[cfg(all(
                        feature = "simd-per-arch",
                        feature = "opt-simd-bucket-aggregation",
                        not(feature = "detect-features"),
                        any(target_arch = "x86", target_arch = "x86_64"),
                        target_feature = "sse2"
                    ))] {
                        #[allow(unsafe_code)]
                        unsafe {
                            x86_sse2::$name(out, buckets, q1, q2, q3)
                        }
                    }
                    else if #[cfg(all(
                        feature = "simd-per-arch",
                        feature = "opt-simd-bucket-aggregation",
                        target_arch = "wasm32",
                        target_feature = "simd128"
                    ))] {
                        #[allow(unsafe_code)]
                        unsafe {
                            wasm32_simd128::$name(out, buckets, q1, q2, q3)
                        }
                    }
                    else if #[cfg(all(
                        feature = "simd-portable",
                        feature = "opt-simd-bucket-aggregation"
                    ))] {
                        portable_simd::$name(out, buckets, q1, q2, q3)
                    }
                    else {
                        naive::$name(out, buckets, q1, q2, q3)
                    }
                }
            }
        )*
    }
}

aggregation_func_template! {
    aggregate_48  = (12,  48, DISPATCH_AGGREGATE_48);
    aggregate_128 = (32, 128, DISPATCH_AGGREGATE_128);
    aggregate_256 = (64, 256, DISPATCH_AGGREGATE_256);
}

mod tests;
