// SPDX-License-Identifier: Apache-2.0 OR MIT
// SPDX-FileCopyrightText: Copyright (C) 2024 Tsukasa OI <floss_ssdeep@irq.a4lg.com>.

//! Tests: [`crate::generate`].

#![cfg(test)]

use super::{ConstrainedFuzzyHashType, GeneratorOptions, GeneratorType, WINDOW_SIZE};

use core::fmt::Debug;
use core::str::FromStr;

use crate::buckets::constrained::{FuzzyHashBucketMapper, FuzzyHashBucketsInfo};
use crate::buckets::{NUM_BUCKETS_LONG, NUM_BUCKETS_NORMAL, NUM_BUCKETS_SHORT};
use crate::errors::{GeneratorError, GeneratorErrorCategory};
use crate::hashes;
use crate::length::{
    ConstrainedLengthProcessingInfo, DataLengthProcessingMode, LengthProcessingInfo,
};
use crate::{Tlsh, TlshGenerator, TlshGeneratorFor};

pub(crate) const LOREM_IPSUM: &[u8] = b"Lorem ipsum dolor sit amet, consectetur \
adipiscing elit, sed do eiusmod tempor incididunt ut labore et dolore magna \
aliqua. Ut enim ad minim veniam, quis nostrud exercitation ullamco laboris nisi \
ut aliquip ex ea commodo consequat. Duis aute irure dolor in reprehenderit in \
voluptate velit esse cillum dolore eu fugiat nulla pariatur. Excepteur sint \
occaecat cupidatat non proident, sunt in culpa qui officia deserunt mollit anim \
id est laborum.";
pub(crate) const LOREM_IPSUM_HASH_NORMAL: &str =
    "T1DCF0DC36520C1B007FD32079B226559FD998A0200725E75AFCEAC99F5881184A4B1AA2";

// Data that will fill specific number of buckets.
// They are normally statistically unbalanced or on the border of "unbalance"
// in the TLSH metrics.
const BUCKETS_FILLED_12_OF_48: &[u8; 10] = b"\x73\x28\x65\xba\xeb\x85\x57\x96\x0c\xea";
const BUCKETS_FILLED_13_OF_48: &[u8; 10] = b"\x41\x3d\xad\xa3\x16\x7f\x2d\xde\xad\xec";
const BUCKETS_FILLED_17_OF_48: &[u8; 10] = b"\xcb\x10\x6e\xca\x69\x45\xb7\x81\x1b\x57";
const BUCKETS_FILLED_18_OF_48: &[u8; 10] = b"\x08\x16\x8c\xb0\x65\xf5\x93\xbb\x88\xaf";
const BUCKETS_FILLED_23_OF_48: &[u8; 10] = b"\xb6\xe0\x71\xa6\x20\x1a\x6b\x2b\xe2\x44";
const BUCKETS_FILLED_24_OF_48: &[u8; 10] = b"\xd2\x21\x50\x57\xec\x82\x0b\xef\x36\xaa";
const BUCKETS_FILLED_25_OF_48: &[u8; 10] = b"\x6e\x24\x6e\xc2\x9b\x62\x19\x04\x13\xa0";
const BUCKETS_FILLED_32_OF_128: &[u8; 50] = b"\
    \xe3\x77\x84\x3a\xb1\x5e\x6b\x02\x50\x18\
    \x4b\x45\x23\x47\xe1\x1a\x90\x05\x3a\x29\
    \x7f\xcd\x05\xe2\xeb\xec\x44\x1f\xb5\xe8\
    \xe5\xb5\x7c\x3f\xff\x7f\x1d\x99\x05\xfb\
    \xc7\xca\xdf\x87\xed\x07\xff\x8b\xdb\xad";
const BUCKETS_FILLED_33_OF_128: &[u8; 50] = b"\
    \x45\x77\x4f\xfa\xe9\xc6\x83\xfe\x36\xee\
    \x63\x0a\x51\xa7\xcb\xa2\x24\x79\x39\xd5\
    \x9a\x7b\x52\x95\xf0\xc5\x29\xf2\x5f\x0b\
    \xd2\x28\xdd\x7e\xfe\xaf\xc0\x50\x86\xf5\
    \xf4\x3d\x4d\x0d\x2f\xc0\xd9\x57\xf5\x2a";
const BUCKETS_FILLED_64_OF_128: &[u8; 50] = b"\
    \xcc\x00\x19\xfe\xa3\x63\x1b\xe7\x6f\xf4\
    \x86\x7d\xfd\x06\xcd\xfc\x2a\x20\x6d\x61\
    \xe7\x88\xa8\x07\x96\x4d\xa0\x19\x01\x0b\
    \xa8\x4a\x2a\xd8\xbc\xad\xbe\xc6\x04\x50\
    \xb8\xbf\x65\xb6\x3f\x7d\xb4\x71\xee\x49";
const BUCKETS_FILLED_65_OF_128: &[u8; 50] = b"\
    \xa1\xdb\xcb\x51\x8c\x2c\x5d\xc9\x6a\x85\
    \x20\xcc\xad\x70\x47\xad\x3c\x18\x16\x7a\
    \xf5\xd5\xcc\xdd\x38\x3b\x24\xb4\x3d\x7f\
    \x1f\xc7\x3a\x8e\xbf\x27\xca\xcc\xb6\xc9\
    \x35\xc0\x58\xdc\x76\xd9\x4e\x31\xea\xb2";
const BUCKETS_FILLED_64_OF_256: &[u8; 50] = b"\
    \x30\x76\xaa\x04\x8b\x53\x71\xe3\x9a\x2d\
    \xcb\xb2\xd3\x0f\x9a\x2d\xcb\xb2\xd3\x0f\
    \x9a\x2d\xcb\xb2\xd3\x0f\x9a\x2d\xcb\xb2\
    \xd3\x0f\x9a\x2d\xcb\xb2\xd3\x0f\x9a\x2d\
    \xcb\xb2\xd3\x0f\x9a\x2d\xcb\xb2\xd3\x0f";
const BUCKETS_FILLED_65_OF_256: &[u8; 50] = b"\
    \x64\xe5\x33\xaa\x14\x82\x2a\x45\x82\x50\
    \xdc\x32\xd3\xd0\x53\xd6\x7c\x32\xd3\xd0\
    \x53\xd6\x7c\x32\xd3\xd0\x53\xd6\x7c\x32\
    \xd3\xd0\x53\xd6\x7c\x32\xd3\xd0\x53\xd6\
    \x7c\x32\xd3\xd0\x53\xd6\x7c\x32\xd3\xd0";
const BUCKETS_FILLED_128_OF_256: &[u8; 50] = b"\
    \xb8\x56\xea\xca\x15\xa2\x57\x23\xd2\x25\
    \xf1\x4c\x58\xd3\xca\x1a\x54\xf6\x09\x07\
    \xb0\x89\xce\xf1\x35\x3d\x25\xe4\xfc\x48\
    \xeb\xa1\xab\x49\xc8\x01\x67\x64\x93\x60\
    \xbb\xf3\x39\x98\xc0\xa9\x3e\x8b\x37\xce";
const BUCKETS_FILLED_129_OF_256: &[u8; 50] = b"\
    \x0d\x52\x88\x4e\xfc\x77\x3f\x47\x12\x8e\
    \x36\x30\x6f\x1a\x7d\x0b\x52\x1e\x98\x5c\
    \xc5\xa0\x1f\xb2\xa9\x43\xae\xe6\x4f\x69\
    \x61\x9e\xa3\xab\xdd\x2b\xe6\x60\x61\x5c\
    \x30\x47\xa4\x80\x7a\xde\x60\xb4\x7c\x26";

// 10-1 bytes, 30/48 buckets are filled (one of many perfect solutions and
// this data + '\0' is also a perfect solution with 36/48 buckets filled).
const STATISTICALLY_OKAY_WITH_LEN_9: &[u8; 9] = b"\x1d\x98\x29\x36\x25\xcb\xf5\xe2\x46";
// 50-1 bytes, 112/128 or 215/256 buckets are filled
// (statistically fine by itself on both normal and long variants)
const STATISTICALLY_OKAY_WITH_LEN_49: &[u8; 49] = b"\
    \x6c\xbc\x89\xe1\x61\x9e\x8e\
    \xeb\xcc\x8e\xbc\x2a\x17\x0b\
    \xe4\xcc\x25\xca\xf2\xe9\xe8\
    \x6e\xbc\x69\x25\x56\xb5\x5c\
    \xe5\x69\xf8\x48\x62\xf0\x00\
    \x97\xf0\xee\xad\x35\xc3\xed\
    \x41\xf6\x65\x8a\x02\x43\x37";

#[test]
fn prerequisites() {
    // Both WINDOW_SIZE and WINDOW_SIZE must fit in u32.
    assert!(u32::try_from(WINDOW_SIZE).is_ok());
    assert_ne!(WINDOW_SIZE, 0);
    // TAIL_SIZE must be greater than zero to encode
    // "we reached to 4GiB" condition by both len and tail_len.
    assert!(WINDOW_SIZE > 1);
}

#[test]
fn generator_options_compatibility() {
    let base_options = GeneratorOptions::new();
    let options = base_options.clone();
    assert!(options.is_tlsh_compatible());
    // Length processing mode is compatible with the official implementation.
    let mut options = base_options.clone();
    let options = options.length_processing_mode(DataLengthProcessingMode::Conservative);
    assert!(options.is_tlsh_compatible());
    let mut options = base_options.clone();
    let options = options.length_processing_mode(DataLengthProcessingMode::Optimistic);
    assert!(options.is_tlsh_compatible());
    // Setting incompatible options to false keeps the compatibility.
    let mut options = base_options.clone();
    let options = options.allow_small_size_files(false);
    assert!(options.is_tlsh_compatible());
    let mut options = base_options.clone();
    let options = options.allow_statistically_weak_buckets_half(false);
    assert!(options.is_tlsh_compatible());
    let mut options = base_options.clone();
    let options = options.allow_statistically_weak_buckets_quarter(false);
    assert!(options.is_tlsh_compatible());
    let mut options = base_options.clone();
    let options = options.pure_integer_qratio_computation(false);
    assert!(options.is_tlsh_compatible());
    // Incompatible with the official implementation:
    let mut options = base_options.clone();
    let options = options.allow_small_size_files(true);
    assert!(!options.is_tlsh_compatible());
    let mut options = base_options.clone();
    let options = options.allow_statistically_weak_buckets_half(true);
    assert!(!options.is_tlsh_compatible());
    let mut options = base_options.clone();
    let options = options.allow_statistically_weak_buckets_quarter(true);
    assert!(!options.is_tlsh_compatible());
    // Compatible with the official implementation:
    let mut options = base_options.clone();
    let options = options.pure_integer_qratio_computation(true);
    assert!(options.is_tlsh_compatible());
}

#[test]
fn tlsh_timing_unittest_vector() {
    // Displayed in the official implementation's timing_unittest.
    // Repeat 'A' through 'Z' for 1 000 000 bytes (except the last byte: '\0')
    let buffer: Vec<_> = (b'A'..=b'Z').cycle().take(1000000 - 1).chain([0]).collect();
    let mut gen = TlshGenerator::new();
    gen.update(&buffer);
    let hash = gen.finalize().unwrap();
    let expected = "T1A12500088C838B0A0F0EC3C0ACAB82F3B8228B0308CFA302338C0F0AE2C24F28000008";
    let expected = Tlsh::from_str(expected).unwrap();
    assert_eq!(hash, expected);
}

#[test]
fn tlsh_timing_unittest_vector_hidden() {
    // *not* displayed in the official implementation's timing_unittest
    // but used for comparison with another (above) and the expected value is
    // calculated using the official implementation.
    // Repeat 0x20, 0x21,.... (90 bytes) for 1 000 000 bytes (except the last byte: '\0')
    let buffer: Vec<_> = (b' '..(b' ' + 90))
        .cycle()
        .take(1000000 - 1)
        .chain([0])
        .collect();
    let mut gen = TlshGenerator::new();
    gen.update(&buffer);
    let hash = gen.finalize().unwrap();
    let expected = "T129251210F4C18D0A5F0661C4F64D905B585253A3024F022323E5074CC5601904886D1C";
    let expected = Tlsh::from_str(expected).unwrap();
    assert_eq!(hash, expected);
}

#[test]
fn generator_impls() {
    assert_eq!(TlshGenerator::new().inner, TlshGenerator::default().inner);
}

#[test]
fn generator_update_strategies() {
    type CustomGenerator = TlshGeneratorFor<hashes::Short>;
    let expected = hashes::Short::from_str("T1E16004017D3551777571D55C005CC5").unwrap();
    let buf = b"Hello, World!".as_slice();
    for divider1 in 0..=buf.len() {
        for divider2 in divider1..=buf.len() {
            let mut generator = CustomGenerator::new();
            generator.update(&buf[..divider1]);
            assert_eq!(generator.processed_len(), Some(divider1 as u32));
            generator.update(&buf[divider1..divider2]);
            assert_eq!(generator.processed_len(), Some(divider2 as u32));
            generator.update(&buf[divider2..]);
            assert_eq!(generator.processed_len(), Some(buf.len() as u32));
            assert_eq!(generator.finalize(), Ok(expected));
        }
    }
    // Update byte-to-byte
    {
        let mut generator = CustomGenerator::new();
        buf.iter().for_each(|&b| generator.update(&[b]));
        assert_eq!(generator.finalize(), Ok(expected));
    }
}

#[test]
fn generator_example_with_variants() {
    fn check_lorem_ipsum<F: ConstrainedFuzzyHashType + Debug>(expected: &str) {
        let expected = F::from_str(expected).unwrap();
        let mut generator = TlshGeneratorFor::<F>::new();
        generator.update(LOREM_IPSUM);
        let hash = generator.finalize().unwrap();
        assert_eq!(hash, expected);
    }
    check_lorem_ipsum::<hashes::Short>("T1E1F029B2FCAA4D5FE04846105FA5E2");
    check_lorem_ipsum::<hashes::Normal>(LOREM_IPSUM_HASH_NORMAL);
    check_lorem_ipsum::<hashes::NormalWithLongChecksum>(
        "T1DC33D4F0DC36520C1B007FD32079B226559FD998A0200725E75AFCEAC99F5881184A4B1AA2",
    );
    check_lorem_ipsum::<hashes::Long>(
        "T1DCF0DCA405C02AF1D4860CA5894A05301D60E9915198060A7044C608A1E89A11BD2B2836520C1B007FD32079B226559FD998A0200725E75AFCEAC99F5881184A4B1AA2"
    );
    check_lorem_ipsum::<hashes::LongWithLongChecksum>(
        "T1DC33D4F0DCA405C02AF1D4860CA5894A05301D60E9915198060A7044C608A1E89A11BD2B2836520C1B007FD32079B226559FD998A0200725E75AFCEAC99F5881184A4B1AA2"
    );
}

#[test]
fn min_lengths() {
    fn check<F: ConstrainedFuzzyHashType + Debug, const SIZE_BUCKETS: usize>(data: &[u8])
    where
        FuzzyHashBucketsInfo<SIZE_BUCKETS>: FuzzyHashBucketMapper,
        LengthProcessingInfo<SIZE_BUCKETS>: ConstrainedLengthProcessingInfo,
    {
        assert_eq!(SIZE_BUCKETS, F::NUMBER_OF_BUCKETS);
        // Construct the generator.
        // The input data is 1-byte less than the optimistic limit.
        let mut generator = TlshGeneratorFor::<F>::new();
        generator.update(data);
        let result = generator.finalize();
        assert!(result.is_err());
        assert_eq!(
            result.unwrap_err().category(),
            GeneratorErrorCategory::DataLength
        );
        // Now we get a valid fuzzy hash after appending a byte.
        // The input data is chosen not to cause statistic errors.
        generator.update(b"\0");
        let result = generator.finalize();
        assert!(result.is_ok());
        let size = (data.len() + 1) as u32;
        assert_eq!(LengthProcessingInfo::<SIZE_BUCKETS>::MIN, size);
        // Repeat until we reach the conservative minimum length,
        // make sure that finalization with conservative mode fails.
        for _ in size..LengthProcessingInfo::<SIZE_BUCKETS>::MIN_CONSERVATIVE {
            let result = generator.finalize_with_options(
                GeneratorOptions::new()
                    .length_processing_mode(DataLengthProcessingMode::Conservative),
            );
            assert!(result.is_err());
            assert_eq!(
                result.unwrap_err().category(),
                GeneratorErrorCategory::DataLength
            );
            generator.update(b"\0");
        }
        // We reached to the conservative minimum length.
        // Now we are able to construct a fuzzy hash in conservative mode.
        assert_eq!(
            generator.processed_len().unwrap(),
            LengthProcessingInfo::<SIZE_BUCKETS>::MIN_CONSERVATIVE
        );
        let result = generator.finalize_with_options(
            GeneratorOptions::new().length_processing_mode(DataLengthProcessingMode::Conservative),
        );
        assert!(result.is_ok());
    }
    check::<hashes::Short, NUM_BUCKETS_SHORT>(STATISTICALLY_OKAY_WITH_LEN_9);
    check::<hashes::Normal, NUM_BUCKETS_NORMAL>(STATISTICALLY_OKAY_WITH_LEN_49);
    check::<hashes::NormalWithLongChecksum, NUM_BUCKETS_NORMAL>(STATISTICALLY_OKAY_WITH_LEN_49);
    check::<hashes::Long, NUM_BUCKETS_LONG>(STATISTICALLY_OKAY_WITH_LEN_49);
    check::<hashes::LongWithLongChecksum, NUM_BUCKETS_LONG>(STATISTICALLY_OKAY_WITH_LEN_49);
}

#[test]
fn max_lengths() {
    fn check<F: ConstrainedFuzzyHashType>()
    {
        assert_eq!(TlshGeneratorFor::<F>::MAX, crate::length::MAX);
    }
    check::<hashes::Short>();
    check::<hashes::Normal>();
    check::<hashes::NormalWithLongChecksum>();
    check::<hashes::Long>();
    check::<hashes::LongWithLongChecksum>();
}

/// Return the [`TlshGenerator`] which virtually processed
/// specified repetition of `[0xa4, 0x0e]`.
fn generator_with_a40e_repetitions(rep: u32) -> TlshGenerator {
    // Checksum repeats with period 141.
    const CHECKSUM_VALUES: [u8; 141] = [
        0x00, 0xde, 0xfc, 0xf4, 0x55, 0x24, 0xb0, 0x05, 0x0a, 0xd0, 0xa0, 0x64, 0x0d, 0xe8, 0x6f,
        0x81, 0xc4, 0xae, 0x01, 0xcb, 0xbe, 0x5d, 0xf5, 0x0e, 0x09, 0xcc, 0x67, 0x1e, 0x22, 0xc2,
        0xe0, 0xee, 0xc1, 0x8d, 0x12, 0xdf, 0xdb, 0x0b, 0x89, 0x1d, 0x8f, 0xab, 0x96, 0x3e, 0x19,
        0xe9, 0x04, 0x66, 0xf6, 0x9a, 0x8c, 0xbb, 0x4e, 0x25, 0x32, 0x5c, 0x20, 0xe7, 0xb1, 0x9f,
        0x6a, 0x62, 0xa9, 0x10, 0x39, 0xf9, 0x79, 0xf8, 0xa3, 0x7d, 0x84, 0x2a, 0xc5, 0xeb, 0x83,
        0xbd, 0xa6, 0xb2, 0x3c, 0x82, 0x2e, 0xca, 0x2f, 0xdc, 0xb8, 0x4b, 0x53, 0x9b, 0x40, 0x87,
        0xe4, 0x37, 0x49, 0x51, 0x80, 0x7c, 0x9e, 0x9c, 0xc7, 0x34, 0xa7, 0xfb, 0x58, 0x08, 0x54,
        0xf7, 0x59, 0xce, 0x43, 0x21, 0x65, 0x74, 0xd5, 0x1f, 0x7b, 0xec, 0xb6, 0xd8, 0xd2, 0x3d,
        0xc3, 0x6d, 0x2c, 0x23, 0xb3, 0x45, 0xea, 0x76, 0x71, 0x31, 0x07, 0xb7, 0x8a, 0xbc, 0x90,
        0x42, 0x94, 0xfa, 0x5a, 0xf0, 0xe6,
    ];
    assert!(rep <= 0x80000000);
    let total_size = 2u64 * rep as u64;
    // Note: heavily depends on the Generator internals
    let mut generator = TlshGenerator::new();
    if rep >= 2 {
        let rem_rep = rep - 2;
        generator.inner.tail = [0xa4, 0x0e, 0xa4, 0x0e];
        generator.inner.tail_len = 4;
        generator.inner.len = (total_size - 4) as u32;
        if rep > 2 {
            generator.inner.checksum =
                crate::hash::checksum::FuzzyHashChecksumData::<1, 128>::from_raw(&[
                    CHECKSUM_VALUES[rem_rep as usize % CHECKSUM_VALUES.len()],
                ]);
            generator.inner.buckets.buckets[0x14] = rem_rep;
            generator.inner.buckets.buckets[0x3d] = rem_rep;
            generator.inner.buckets.buckets[0x5b] = rem_rep.wrapping_mul(4);
            generator.inner.buckets.buckets[0x5c] = rem_rep;
            generator.inner.buckets.buckets[0x5d] = rem_rep;
            #[cfg(not(feature = "opt-low-memory-buckets"))]
            {
                generator.inner.buckets.buckets[0x8a] = rem_rep;
                generator.inner.buckets.buckets[0xaf] = rem_rep;
                generator.inner.buckets.buckets[0xe5] = rem_rep;
                generator.inner.buckets.buckets[0xf9] = rem_rep;
            }
        }
    } else if rep == 1 {
        generator.inner.tail = [0xa4, 0x0e, 0x00, 0x00];
        generator.inner.tail_len = 2;
    }
    generator
}

#[test]
fn test_generator_with_a40e_repetitions() {
    for rep in 0u32..8 {
        let generator = generator_with_a40e_repetitions(rep);
        let mut expected = TlshGenerator::new();
        for _ in 0..rep {
            expected.update(b"\xa4\x0e");
        }
        assert_eq!(generator.inner, expected.inner, "{rep}");
    }
}

#[test]
fn empty_data() {
    let generator = TlshGenerator::new();
    assert_eq!(generator.finalize(), Err(GeneratorError::TooSmallInput));
    assert_eq!(
        generator.finalize_with_options(GeneratorOptions::new().allow_small_size_files(true)),
        Err(GeneratorError::BucketsAreThreeQuarterEmpty)
    );
}

#[test]
fn large_data_examples() {
    let max_generator = generator_with_a40e_repetitions(0x80000000);
    let mut generator = generator_with_a40e_repetitions(0x7ffffffc);
    assert_eq!(generator.processed_len(), Some(0x7ffffffc * 2));
    // Attempt to finalize this would result in a "too large" error.
    assert_eq!(generator.finalize(), Err(GeneratorError::TooLargeInput));
    // Repeat 4 more times plus extra garbage
    // (ignored since it's past the first 4GiB).
    generator.update(b"\xa4\x0e\xa4\x0e\xa4\x0e\xa4\x0e\x01\x02");
    assert_eq!(max_generator.inner, generator.inner);
    assert_eq!(generator.processed_len(), None);
    // Feed more data (ignored)
    generator.update(b"\x03\x04\x05\x06\x07\x08\x09\x0a\x0b\x0c");
    assert_eq!(max_generator.inner, generator.inner);
    assert_eq!(generator.processed_len(), None);
}

#[test]
fn extreme_unbalanced_data_forced_to_finalize() {
    let mut generator = TlshGenerator::new();
    generator.update(BUCKETS_FILLED_32_OF_128);
    let result = generator.finalize_with_options(
        GeneratorOptions::new()
            .allow_statistically_weak_buckets_quarter(true)
            .pure_integer_qratio_computation(true),
    );
    assert_eq!(
        result.unwrap().to_string(),
        "T188904400C0C300300000C00000303C0000000C000300C00C00F30CC03F0C0000C30300"
    );
}

#[test]
fn min_nonzero_buckets_in_data() {
    fn check_state<F: ConstrainedFuzzyHashType>(data: &[u8], expected: usize) -> bool {
        let n_buckets = F::NUMBER_OF_BUCKETS;
        let mut generator = TlshGeneratorFor::<F>::new();
        generator.update(data);
        let result = generator.finalize();
        assert_eq!(generator.count_nonzero_buckets(), expected);
        if let Err(err) = result {
            assert_eq!(err.category(), GeneratorErrorCategory::DataDistribution);
            // More extreme distribution: BucketsAreThreeQuarterEmpty
            if expected <= n_buckets / 4 {
                assert_eq!(err, GeneratorError::BucketsAreThreeQuarterEmpty);
            }
        }
        result.is_ok()
    }
    // Short
    #[rustfmt::skip]
    fn check_short<F: ConstrainedFuzzyHashType>() {
        assert!(F::NUMBER_OF_BUCKETS == NUM_BUCKETS_SHORT);
        assert!(!check_state::<F>(BUCKETS_FILLED_12_OF_48, 12));
        assert!(!check_state::<F>(BUCKETS_FILLED_13_OF_48, 13));
        assert!(!check_state::<F>(BUCKETS_FILLED_17_OF_48, 17));
        assert!( check_state::<F>(BUCKETS_FILLED_18_OF_48, 18));
        assert!( check_state::<F>(BUCKETS_FILLED_23_OF_48, 23));
        assert!( check_state::<F>(BUCKETS_FILLED_24_OF_48, 24));
        assert!( check_state::<F>(BUCKETS_FILLED_25_OF_48, 25));
    }
    assert_eq!(
        FuzzyHashBucketsInfo::<NUM_BUCKETS_SHORT>::MIN_NONZERO_BUCKETS,
        18
    );
    check_short::<hashes::Short>();
    // Normal
    #[rustfmt::skip]
    fn check_normal<F: ConstrainedFuzzyHashType>() {
        assert!(F::NUMBER_OF_BUCKETS == NUM_BUCKETS_NORMAL);
        assert!(!check_state::<F>(BUCKETS_FILLED_32_OF_128, 32));
        assert!(!check_state::<F>(BUCKETS_FILLED_33_OF_128, 33));
        assert!(!check_state::<F>(BUCKETS_FILLED_64_OF_128, 64));
        assert!( check_state::<F>(BUCKETS_FILLED_65_OF_128, 65));
    }
    assert_eq!(
        FuzzyHashBucketsInfo::<NUM_BUCKETS_NORMAL>::MIN_NONZERO_BUCKETS,
        65
    );
    check_normal::<hashes::Normal>();
    check_normal::<hashes::NormalWithLongChecksum>();
    // Long
    #[rustfmt::skip]
    fn check_long<F: ConstrainedFuzzyHashType>() {
        assert!(F::NUMBER_OF_BUCKETS == NUM_BUCKETS_LONG);
        assert!(!check_state::<F>(BUCKETS_FILLED_64_OF_256, 64));
        assert!(!check_state::<F>(BUCKETS_FILLED_65_OF_256, 65));
        assert!(!check_state::<F>(BUCKETS_FILLED_128_OF_256, 128));
        assert!( check_state::<F>(BUCKETS_FILLED_129_OF_256, 129));
    }
    assert_eq!(
        FuzzyHashBucketsInfo::<NUM_BUCKETS_LONG>::MIN_NONZERO_BUCKETS,
        129
    );
    check_long::<hashes::Long>();
    check_long::<hashes::LongWithLongChecksum>();
}

#[test]
fn inevitable_unbalance_on_bucket_aggregation_example() {
    type Hash = hashes::Normal;
    let expected = "T11C90440000000000000000000000000000000000000000000000000000000000000000";
    let expected = Hash::from_str(expected).unwrap();
    let mut generator = TlshGeneratorFor::<Hash>::new();
    generator.update(
        b"\
        \x59\xc7\xb0\xe5\x47\xbe\x4c\x06\xdc\x95\x03\xc5\x16\x47\x2f\x8d\
        \x03\xea\x73\xd1\xc0\xb8\x79\xcd\x09\x87\xb9\x1f\xdf\xf9\x7c\xdb\
        \x38\x76\xd7\xf2\x04\xde\xc2\xcf\x9f\x7f\xab\xf0\xd5\x7a\x11\x56\
        \xf1\x89",
    );
    assert_eq!(generator.finalize().unwrap(), expected);
}
