// SPDX-License-Identifier: Apache-2.0 OR MIT
// SPDX-FileCopyrightText: Copyright (C) 2024–2025 Tsukasa OI <floss_ssdeep@irq.a4lg.com>.

use rand::{Rng, SeedableRng};
use rand_xoshiro::Xoshiro256PlusPlus;

macro_rules! fuzz_aggregate_template {
    {$($name:ident = ($method_to_test:ident, $size:literal, $seed:literal, $iter:expr);)*} => {
        $(
            #[test]
            fn $name() {
                assert_eq!($size % 4, 0);
                let mut rng = Xoshiro256PlusPlus::seed_from_u64($seed);
                let mut buckets = [0; $size];
                for _ in 0..$iter {
                    buckets.iter_mut().for_each(|x| *x = rng.random());
                    let mut buckets_sorted = buckets;
                    buckets_sorted.sort_unstable();
                    let q1 = buckets_sorted[$size / 4 * 1 - 1];
                    let q2 = buckets_sorted[$size / 4 * 2 - 1];
                    let q3 = buckets_sorted[$size / 4 * 3 - 1];
                    let mut expected_out = [0; $size / 4];
                    super::naive::$method_to_test(&mut expected_out, &buckets, q1, q2, q3);
                    let mut out = [0; $size / 4];
                    super::$method_to_test(&mut out, &buckets, q1, q2, q3);
                    assert_eq!(
                        out, expected_out,
                        "failed on buckets={buckets:?}, q1={q1}, q2={q2}, q3={q3}"
                    );
                }
            }
        )*
    }
}

#[cfg(all(miri, fast_tlsh_tests_reduce_on_miri))]
const ITER: usize = 1_000;
#[cfg(not(all(miri, fast_tlsh_tests_reduce_on_miri)))]
const ITER: usize = 1_000_000;

fuzz_aggregate_template! {
    fuzz_aggregate_48  = (aggregate_48,   48, 0x381e31a9a5f5714e, ITER);
    fuzz_aggregate_128 = (aggregate_128, 128, 0xcd1476225ecea02c, ITER);
    fuzz_aggregate_256 = (aggregate_256, 256, 0xbd151ebb474984d7, ITER);
}
