// SPDX-License-Identifier: Apache-2.0 OR MIT
// SPDX-FileCopyrightText: Copyright (C) 2024 Tsukasa OI <floss_ssdeep@irq.a4lg.com>.

//! WebAssembly SIMD implementation of TLSH bucket aggregation.
//!
//! This implementation handles 4 buckets at once.

#![cfg(all(
    feature = "simd-per-arch",
    feature = "opt-simd-bucket-aggregation",
    target_arch = "wasm32",
    any(doc, target_feature = "simd128")
))]

#[cfg(target_arch = "wasm32")]
use core::arch::wasm32::*;

/// Aggregate 4 buckets into the 1-byte sub-digest based on three quartiles.
///
/// It is assumed to be:
/// *   `q1 <= q2`
/// *   `q2 <= q3`
#[allow(unsafe_code)]
#[inline(always)]
unsafe fn sub_aggregation(buckets: &[u32], q1: u32, q2: u32, q3: u32) -> u8 {
    assert!(buckets.len() >= 4);
    let qv1 = u32x4_splat(q1);
    let qv2 = u32x4_splat(q2);
    let qv3 = u32x4_splat(q3);
    let data = v128_load(buckets.as_ptr() as *const v128);
    let qc2 = u32x4_gt(data, qv2);
    let qb1 = qc2;
    let qb1 = u16x8_bitmask(qb1) & 0xaa;
    let qc1 = u32x4_gt(data, qv1);
    let qc3 = u32x4_gt(data, qv3);
    let qb0 = v128_xor(qc2, qc1);
    let qb0 = v128_xor(qb0, qc3);
    let qb0 = u16x8_bitmask(qb0) & 0x55;
    qb0 | qb1
}

/// Generates aggregation functions like [`aggregate_128()`].
macro_rules! aggregation_func_template {
    {$($name:ident = ($size_small:literal, $size_large:literal);)*} => {
        $(
            #[doc = concat!(
                "Aggregate ",
                stringify!($size_large),
                " buckets into the ",
                stringify!($size_small),
                "-byte digest based on three quartiles.\n",
                "\n",
                "This function requires that:\n",
                "*   `q1 <= q2`\n",
                "*   `q2 <= q3`"
            )]
            #[allow(unsafe_code)]
            #[inline]
            pub(super) unsafe fn $name(
                out: &mut [u8; $size_small],
                buckets: &[u32; $size_large],
                q1: u32,
                q2: u32,
                q3: u32
            ) {
                for (out, subbuckets) in out.iter_mut().rev().zip(buckets.as_slice().chunks_exact(4)) {
                    *out = sub_aggregation(subbuckets, q1, q2, q3);
                }
            }
        )*
    }
}

aggregation_func_template! {
    aggregate_48  = (12,  48);
    aggregate_128 = (32, 128);
    aggregate_256 = (64, 256);
}
