// Verification hooks (compiled only with `--cfg fast_tlsh_verif`).
//! Direct access to each compiled bucket aggregation backend.

macro_rules! by_name {
    ($($fname:ident = ($name:ident, $small:literal, $large:literal);)*) => {
        $(
            /// Runs the named backend; returns false if it is not compiled in / not supported by the CPU.
            #[allow(unused_variables, unreachable_code)]
            pub fn $fname(
                backend: &str,
                out: &mut [u8; $small],
                buckets: &[u32; $large],
                q1: u32,
                q2: u32,
                q3: u32,
            ) -> bool {
                match backend {
                    "dispatch" => {
                        super::$name(out, buckets, q1, q2, q3);
                        true
                    }
                    "naive" => {
                        super::naive::$name(out, buckets, q1, q2, q3);
                        true
                    }
                    #[cfg(all(
                        feature = "simd-per-arch",
                        feature = "opt-simd-bucket-aggregation",
                        feature = "detect-features",
                        any(target_arch = "x86", target_arch = "x86_64")
                    ))]
                    "sse2" => {
                        if !std::arch::is_x86_feature_detected!("sse2") {
                            return false;
                        }
                        #[allow(unsafe_code)]
                        unsafe {
                            super::x86_sse2::$name(out, buckets, q1, q2, q3)
                        };
                        true
                    }
                    #[cfg(all(
                        feature = "simd-per-arch",
                        feature = "opt-simd-bucket-aggregation",
                        feature = "detect-features",
                        any(target_arch = "x86", target_arch = "x86_64")
                    ))]
                    "ssse3" => {
                        if !std::arch::is_x86_feature_detected!("ssse3") {
                            return false;
                        }
                        #[allow(unsafe_code)]
                        unsafe {
                            super::x86_ssse3::$name(out, buckets, q1, q2, q3)
                        };
                        true
                    }
                    #[cfg(all(
                        feature = "simd-per-arch",
                        feature = "opt-simd-bucket-aggregation",
                        feature = "detect-features",
                        any(target_arch = "x86", target_arch = "x86_64")
                    ))]
                    "avx2" => {
                        if !std::arch::is_x86_feature_detected!("avx2") {
                            return false;
                        }
                        #[allow(unsafe_code)]
                        unsafe {
                            super::x86_avx2::$name(out, buckets, q1, q2, q3)
                        };
                        true
                    }
                    _ => false,
                }
            }
        )*
    };
}

by_name! {
    aggregate_48_by = (aggregate_48, 12, 48);
    aggregate_128_by = (aggregate_128, 32, 128);
    aggregate_256_by = (aggregate_256, 64, 256);
}
