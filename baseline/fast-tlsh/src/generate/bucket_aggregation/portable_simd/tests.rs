// SPDX-License-Identifier: Apache-2.0 OR MIT
// SPDX-FileCopyrightText: Copyright (C) 2024 Tsukasa OI <floss_ssdeep@irq.a4lg.com>.

//! Tests: `crate::generate::bucket_aggregation::portable_simd`.

#![cfg(test)]

use super::INTERLEAVE_AS_DIBITS_TABLE;

#[test]
fn interleave_as_dibits_table_values() {
    let table = INTERLEAVE_AS_DIBITS_TABLE;
    const ZERO_INDEX: usize = 0;
    const ZERO_VALUE: u8 = 0;
    assert_eq!(&table[0b10000000][ZERO_INDEX], &[0b10000000, ZERO_VALUE]);
    assert_eq!(&table[0b01000000][ZERO_INDEX], &[0b00100000, ZERO_VALUE]);
    assert_eq!(&table[0b00100000][ZERO_INDEX], &[0b00001000, ZERO_VALUE]);
    assert_eq!(&table[0b00010000][ZERO_INDEX], &[0b00000010, ZERO_VALUE]);
    assert_eq!(&table[0b00001000][ZERO_INDEX], &[ZERO_VALUE, 0b10000000]);
    assert_eq!(&table[0b00000100][ZERO_INDEX], &[ZERO_VALUE, 0b00100000]);
    assert_eq!(&table[0b00000010][ZERO_INDEX], &[ZERO_VALUE, 0b00001000]);
    assert_eq!(&table[0b00000001][ZERO_INDEX], &[ZERO_VALUE, 0b00000010]);
    assert_eq!(&table[ZERO_INDEX][0b10000000], &[0b01000000, ZERO_VALUE]);
    assert_eq!(&table[ZERO_INDEX][0b01000000], &[0b00010000, ZERO_VALUE]);
    assert_eq!(&table[ZERO_INDEX][0b00100000], &[0b00000100, ZERO_VALUE]);
    assert_eq!(&table[ZERO_INDEX][0b00010000], &[0b00000001, ZERO_VALUE]);
    assert_eq!(&table[ZERO_INDEX][0b00001000], &[ZERO_VALUE, 0b01000000]);
    assert_eq!(&table[ZERO_INDEX][0b00000100], &[ZERO_VALUE, 0b00010000]);
    assert_eq!(&table[ZERO_INDEX][0b00000010], &[ZERO_VALUE, 0b00000100]);
    assert_eq!(&table[ZERO_INDEX][0b00000001], &[ZERO_VALUE, 0b00000001]);
}
