// SPDX-License-Identifier: Apache-2.0 OR MIT
// SPDX-FileCopyrightText: Copyright (C) 2024 Tsukasa OI <floss_ssdeep@irq.a4lg.com>.

//! Portable SIMD implementation (Nightly Rust) of TLSH bucket aggregation.
//!
//! This implementation handles up to 64 buckets at once.

#![cfg(all(feature = "simd-portable", feature = "opt-simd-bucket-aggregation"))]

use core::simd::cmp::SimdPartialOrd;
use core::simd::{LaneCount, Simd, SupportedLaneCount};

/// The trait to represent valid correspondence between number of partial bucket
/// entries, intermediate data and the output.
///
/// *   `N_BYTES`: The number of bytes in the output.
/// *   `N_HALF_BYTES`: The half of `N_HALF_BYTES`
///     (for intermediate byte-based handling).
/// *   `N_ELEMS`: The number of input partial buckets.
///
/// # Constraints
///
/// *   `N_BYTES % 2 == 0`
/// *   `N_HALF_BYTES == N_BYTES / 2`
/// *   `N_ELEMS == N_BYTES / 2 * 8`
/// *   The SIMD lane count of `N_ELEMS` is supported.
trait DualElementsToBytes<const N_BYTES: usize, const N_HALF_BYTES: usize, const N_ELEMS: usize>
where
    LaneCount<N_ELEMS>: SupportedLaneCount,
{
}

/// A type instance represent correspondence between number of partial bucket
/// entries, intermediate data and the output.
///
/// *   `N_BYTES`: The number of bytes in the output.
/// *   `N_HALF_BYTES`: The half of `N_HALF_BYTES`
///     (for intermediate byte-based handling).
/// *   `N_ELEMS`: The number of input partial buckets.
///
/// Those type parameters are constrained by [`DualElementsToBytes`].
struct DualElementsAndBytes<const N_BYTES: usize, const N_HALF_BYTES: usize, const N_ELEMS: usize>;
impl DualElementsToBytes<2, 1, 8> for DualElementsAndBytes<2, 1, 8> {}
impl DualElementsToBytes<4, 2, 16> for DualElementsAndBytes<4, 2, 16> {}
impl DualElementsToBytes<8, 4, 32> for DualElementsAndBytes<8, 4, 32> {}
impl DualElementsToBytes<16, 8, 64> for DualElementsAndBytes<16, 8, 64> {}

/// Data table to interleave two 8-bit integers into an array of dibits.
///
/// This table has two effective indices: `[H][L]`, each denoting high/low bits
/// of the 8 dibits output (2 bytes; in big endian).
///
/// The value can be interpreted as follows:
///
/// ```text
/// H == 0b{H7}{H6}{H5}{H4}{H3}{H2}{H1}{H0}
/// L == 0b{L7}{L6}{L5}{L4}{L3}{L2}{L1}{L0}
/// INTERLEAVE_AS_DIBITS_TABLE[H][L] == [
///     0b{H7}{L7}{H6}{L6}{H5}{L5}{H4}{L4},
///     0b{H3}{L3}{H2}{L2}{H1}{L1}{H0}{L0}
/// ]
/// ```
const INTERLEAVE_AS_DIBITS_TABLE: [[[u8; 2]; 256]; 256] = {
    let mut array = [[[0; 2]; 256]; 256];
    let mut b1 = 0;
    while b1 < 256 {
        let mut b0 = 0;
        while b0 < 256 {
            let mut data = 0u16;
            let mut i = 0;
            while i < 16 {
                if i % 2 == 0 {
                    data |= (((b0 as u16) >> (i / 2)) & 1) << i;
                } else {
                    data |= (((b1 as u16) >> (i / 2)) & 1) << i;
                }
                i += 1;
            }
            array[b1][b0] = data.to_be_bytes(); // always BE
            b0 += 1;
        }
        b1 += 1;
    }
    array
};

/// Aggregate `N_ELEMS` buckets into the `N_BYTES`-byte sub-digest
/// based on three quartiles.
#[inline(always)]
fn sub_aggregation<const N_BYTES: usize, const N_HALF_BYTES: usize, const N_ELEMS: usize>(
    buckets: &[u32; N_ELEMS],
    q1: u32,
    q2: u32,
    q3: u32,
) -> [u8; N_BYTES]
where
    DualElementsAndBytes<N_BYTES, N_HALF_BYTES, N_ELEMS>:
        DualElementsToBytes<N_BYTES, N_HALF_BYTES, N_ELEMS>,
    LaneCount<N_ELEMS>: SupportedLaneCount,
{
    let qv1 = Simd::<u32, N_ELEMS>::splat(q1);
    let qv2 = Simd::<u32, N_ELEMS>::splat(q2);
    let qv3 = Simd::<u32, N_ELEMS>::splat(q3);
    let data = Simd::<u32, N_ELEMS>::from_array(*buckets);
    let qc2 = data.simd_gt(qv2);
    let qb1 = qc2;
    let qb1 = &qb1.to_bitmask().to_le_bytes()[..N_HALF_BYTES]; // always LE
    let qc1 = data.simd_gt(qv1);
    let qc3 = data.simd_gt(qv3);
    let qb0 = qc2 ^ qc1;
    let qb0 = qb0 ^ qc3;
    let qb0 = &qb0.to_bitmask().to_le_bytes()[..N_HALF_BYTES]; // always LE
    let mut out = [0u8; N_BYTES];
    for (out, (&b0, &b1)) in out
        .chunks_exact_mut(2)
        .rev()
        .zip(qb0.iter().zip(qb1.iter()))
    {
        out.copy_from_slice(&INTERLEAVE_AS_DIBITS_TABLE[b1 as usize][b0 as usize]);
    }
    out
}

/// Aggregate 48 buckets into the 12-byte digest based on three quartiles.
///
/// This function requires that:
/// *   `q1 <= q2`
/// *   `q2 <= q3`
#[inline]
pub(super) fn aggregate_48(out: &mut [u8; 12], buckets: &[u32; 48], q1: u32, q2: u32, q3: u32) {
    for (out, subbuckets) in out
        .chunks_mut(4)
        .rev()
        .zip(buckets.as_slice().chunks_exact(4 * 4))
    {
        let subbuckets: [u32; 4 * 4] = subbuckets.try_into().unwrap();
        out.copy_from_slice(&sub_aggregation::<4, { 4 / 2 }, { 4 * 4 }>(
            &subbuckets,
            q1,
            q2,
            q3,
        ));
    }
}

/// Aggregate 128 buckets into the 32-byte digest based on three quartiles.
///
/// This function requires that:
/// *   `q1 <= q2`
/// *   `q2 <= q3`
#[inline]
pub(super) fn aggregate_128(out: &mut [u8; 32], buckets: &[u32; 128], q1: u32, q2: u32, q3: u32) {
    for (out, subbuckets) in out
        .chunks_mut(16)
        .rev()
        .zip(buckets.as_slice().chunks_exact(16 * 4))
    {
        let subbuckets: [u32; 16 * 4] = subbuckets.try_into().unwrap();
        out.copy_from_slice(&sub_aggregation::<16, { 16 / 2 }, { 16 * 4 }>(
            &subbuckets,
            q1,
            q2,
            q3,
        ));
    }
}

/// Aggregate 256 buckets into the 64-byte digest based on three quartiles.
///
/// This function requires that:
/// *   `q1 <= q2`
/// *   `q2 <= q3`
#[inline]
pub(super) fn aggregate_256(out: &mut [u8; 64], buckets: &[u32; 256], q1: u32, q2: u32, q3: u32) {
    for (out, subbuckets) in out
        .chunks_mut(16)
        .rev()
        .zip(buckets.as_slice().chunks_exact(16 * 4))
    {
        let subbuckets: [u32; 16 * 4] = subbuckets.try_into().unwrap();
        out.copy_from_slice(&sub_aggregation::<16, { 16 / 2 }, { 16 * 4 }>(
            &subbuckets,
            q1,
            q2,
            q3,
        ));
    }
}

mod tests;
