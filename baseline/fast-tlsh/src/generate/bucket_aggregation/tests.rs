// SPDX-License-Identifier: Apache-2.0 OR MIT
// SPDX-FileCopyrightText: Copyright (C) 2024 Tsukasa OI <floss_ssdeep@irq.a4lg.com>.

//! Tests: [`crate::generate::bucket_aggregation`].

#![cfg(test)]

use super::naive::{self, get_quartile};
use super::{aggregate_128, aggregate_256, aggregate_48};

use crate::buckets::{NUM_BUCKETS_LONG, NUM_BUCKETS_NORMAL, NUM_BUCKETS_SHORT};
use crate::hash::body::{BODY_SIZE_LONG, BODY_SIZE_NORMAL, BODY_SIZE_SHORT};

#[test]
fn test_naive_get_quartile() {
    // Basic examples
    assert_eq!(get_quartile(0x00, 0x02, 0x04, 0x06), 0b00);
    assert_eq!(get_quartile(0x01, 0x02, 0x04, 0x06), 0b00);
    assert_eq!(get_quartile(0x02, 0x02, 0x04, 0x06), 0b00);
    assert_eq!(get_quartile(0x03, 0x02, 0x04, 0x06), 0b01);
    assert_eq!(get_quartile(0x04, 0x02, 0x04, 0x06), 0b01);
    assert_eq!(get_quartile(0x05, 0x02, 0x04, 0x06), 0b10);
    assert_eq!(get_quartile(0x06, 0x02, 0x04, 0x06), 0b10);
    assert_eq!(get_quartile(0x07, 0x02, 0x04, 0x06), 0b11);
    assert_eq!(get_quartile(0x08, 0x02, 0x04, 0x06), 0b11);
    // Q1 and Q2 are equal
    assert_eq!(get_quartile(0x00, 0x02, 0x02, 0x04), 0b00);
    assert_eq!(get_quartile(0x01, 0x02, 0x02, 0x04), 0b00);
    assert_eq!(get_quartile(0x02, 0x02, 0x02, 0x04), 0b00);
    assert_eq!(get_quartile(0x03, 0x02, 0x02, 0x04), 0b10);
    assert_eq!(get_quartile(0x04, 0x02, 0x02, 0x04), 0b10);
    assert_eq!(get_quartile(0x05, 0x02, 0x02, 0x04), 0b11);
    assert_eq!(get_quartile(0x06, 0x02, 0x02, 0x04), 0b11);
    // Q2 and Q3 are equal
    assert_eq!(get_quartile(0x00, 0x02, 0x04, 0x04), 0b00);
    assert_eq!(get_quartile(0x01, 0x02, 0x04, 0x04), 0b00);
    assert_eq!(get_quartile(0x02, 0x02, 0x04, 0x04), 0b00);
    assert_eq!(get_quartile(0x03, 0x02, 0x04, 0x04), 0b01);
    assert_eq!(get_quartile(0x04, 0x02, 0x04, 0x04), 0b01);
    assert_eq!(get_quartile(0x05, 0x02, 0x04, 0x04), 0b11);
    assert_eq!(get_quartile(0x06, 0x02, 0x04, 0x04), 0b11);
    // Q1, Q2 and Q3 are equal
    assert_eq!(get_quartile(0x00, 0x02, 0x02, 0x02), 0b00);
    assert_eq!(get_quartile(0x01, 0x02, 0x02, 0x02), 0b00);
    assert_eq!(get_quartile(0x02, 0x02, 0x02, 0x02), 0b00);
    assert_eq!(get_quartile(0x03, 0x02, 0x02, 0x02), 0b11);
}

trait BucketAggregationImpls<const SIZE_BODY: usize, const SIZE_BUCKETS: usize> {
    fn naive(out: &mut [u8; SIZE_BODY], buckets: &[u32; SIZE_BUCKETS], q1: u32, q2: u32, q3: u32);
    fn fast(out: &mut [u8; SIZE_BODY], buckets: &[u32; SIZE_BUCKETS], q1: u32, q2: u32, q3: u32);
}

struct BucketAggregation<const SIZE_BODY: usize, const SIZE_BUCKETS: usize>;

impl BucketAggregationImpls<BODY_SIZE_SHORT, NUM_BUCKETS_SHORT>
    for BucketAggregation<BODY_SIZE_SHORT, NUM_BUCKETS_SHORT>
{
    fn naive(
        out: &mut [u8; BODY_SIZE_SHORT],
        buckets: &[u32; NUM_BUCKETS_SHORT],
        q1: u32,
        q2: u32,
        q3: u32,
    ) {
        naive::aggregate_48(out, buckets, q1, q2, q3)
    }

    fn fast(
        out: &mut [u8; BODY_SIZE_SHORT],
        buckets: &[u32; NUM_BUCKETS_SHORT],
        q1: u32,
        q2: u32,
        q3: u32,
    ) {
        aggregate_48(out, buckets, q1, q2, q3)
    }
}

impl BucketAggregationImpls<BODY_SIZE_NORMAL, NUM_BUCKETS_NORMAL>
    for BucketAggregation<BODY_SIZE_NORMAL, NUM_BUCKETS_NORMAL>
{
    fn naive(
        out: &mut [u8; BODY_SIZE_NORMAL],
        buckets: &[u32; NUM_BUCKETS_NORMAL],
        q1: u32,
        q2: u32,
        q3: u32,
    ) {
        naive::aggregate_128(out, buckets, q1, q2, q3)
    }

    fn fast(
        out: &mut [u8; BODY_SIZE_NORMAL],
        buckets: &[u32; NUM_BUCKETS_NORMAL],
        q1: u32,
        q2: u32,
        q3: u32,
    ) {
        aggregate_128(out, buckets, q1, q2, q3)
    }
}

impl BucketAggregationImpls<BODY_SIZE_LONG, NUM_BUCKETS_LONG>
    for BucketAggregation<BODY_SIZE_LONG, NUM_BUCKETS_LONG>
{
    fn naive(
        out: &mut [u8; BODY_SIZE_LONG],
        buckets: &[u32; NUM_BUCKETS_LONG],
        q1: u32,
        q2: u32,
        q3: u32,
    ) {
        naive::aggregate_256(out, buckets, q1, q2, q3)
    }

    fn fast(
        out: &mut [u8; BODY_SIZE_LONG],
        buckets: &[u32; NUM_BUCKETS_LONG],
        q1: u32,
        q2: u32,
        q3: u32,
    ) {
        aggregate_256(out, buckets, q1, q2, q3)
    }
}

#[test]
fn equivalence_optimized_impl() {
    fn test<const SIZE_BODY: usize, const SIZE_BUCKETS: usize>()
    where
        BucketAggregation<SIZE_BODY, SIZE_BUCKETS>: BucketAggregationImpls<SIZE_BODY, SIZE_BUCKETS>,
    {
        // Step evaluation
        let mut buckets = [0u32; SIZE_BUCKETS];
        buckets.iter_mut().zip(1u32..).for_each(|(o, i)| *o = i);
        let test = |q1, q2, q3| {
            let mut out1 = [0u8; SIZE_BODY];
            let mut out2 = [0u8; SIZE_BODY];
            BucketAggregation::<SIZE_BODY, SIZE_BUCKETS>::naive(&mut out1, &buckets, q1, q2, q3);
            BucketAggregation::<SIZE_BODY, SIZE_BUCKETS>::fast(&mut out2, &buckets, q1, q2, q3);
            assert_eq!(out1, out2);
        };
        for offset in 0..=SIZE_BUCKETS as u32 * 2 {
            test(offset, offset, offset);
        }
        for offset in 0..=((SIZE_BUCKETS as u32 / 4) * 4) {
            test(offset, offset, offset + (SIZE_BUCKETS as u32 / 4));
            test(
                offset,
                offset + (SIZE_BUCKETS as u32 / 4),
                offset + (SIZE_BUCKETS as u32 / 4),
            );
        }
        for offset in 0..=((SIZE_BUCKETS as u32 / 4) * 3) {
            test(
                offset,
                offset + (SIZE_BUCKETS as u32 / 4),
                offset + (SIZE_BUCKETS as u32 / 4) * 2,
            );
        }
    }
    test::<BODY_SIZE_SHORT, NUM_BUCKETS_SHORT>();
    test::<BODY_SIZE_NORMAL, NUM_BUCKETS_NORMAL>();
    test::<BODY_SIZE_LONG, NUM_BUCKETS_LONG>();
}
