// SPDX-License-Identifier: Apache-2.0 OR MIT
// SPDX-FileCopyrightText: Copyright (C) 2024 Tsukasa OI <floss_ssdeep@irq.a4lg.com>.

//! SSSE3 implementation (x86) of TLSH bucket aggregation.
//!
//! This implementation handles 4 buckets at once.

#![cfg(all(
    feature = "simd-per-arch",
    feature = "opt-simd-bucket-aggregation",
    any(target_arch = "x86", target_arch = "x86_64"),
    any(
        feature = "detect-features",
        all(not(target_feature = "avx2"), target_feature = "ssse3")
    )
))]

#[cfg(target_arch = "x86")]
use core::arch::x86::*;
#[cfg(target_arch = "x86_64")]
use core::arch::x86_64::*;

/// Aggregate 4 buckets into the 1-byte sub-digest based on three quartiles.
///
/// It is assumed to be:
/// *   `q1 <= q2`
/// *   `q2 <= q3`
#[allow(unsafe_code)]
#[cfg_attr(not(feature = "detect-features"), inline(always))]
#[cfg_attr(feature = "detect-features", target_feature(enable = "ssse3"), inline)]
unsafe fn sub_aggregation(buckets: &[u32], q1: u32, q2: u32, q3: u32) -> u8 {
    assert!(buckets.len() >= 4);
    let qv1 = _mm_set1_epi32((q1 ^ 0x80000000) as i32);
    let qv2 = _mm_set1_epi32((q2 ^ 0x80000000) as i32);
    let qv3 = _mm_set1_epi32((q3 ^ 0x80000000) as i32);
    let hibit = _mm_set1_epi32(0x80000000u32 as i32);
    let shufb_lo = _mm_set_epi8(
        -128, -128, -128, -128, -128, -128, -128, -128, -128, 12, -128, 8, -128, 4, -128, 0,
    );
    let data = _mm_xor_si128(_mm_loadu_si128(buckets.as_ptr() as *const __m128i), hibit);
    let qc2 = _mm_cmpgt_epi32(data, qv2);
    let qb1 = _mm_shuffle_epi8(
        qc2,
        _mm_set_epi8(
            -128, -128, -128, -128, -128, -128, -128, -128, 12, -128, 8, -128, 4, -128, 0, -128,
        ),
    );
    let qb1 = _mm_movemask_epi8(qb1) as u32;
    let qc1 = _mm_cmpgt_epi32(data, qv1);
    let qc3 = _mm_cmpgt_epi32(data, qv3);
    let qb0 = _mm_xor_si128(qc2, qc1);
    let qb0 = _mm_xor_si128(qb0, qc3);
    let qb0 = _mm_shuffle_epi8(qb0, shufb_lo);
    let qb0 = _mm_movemask_epi8(qb0) as u32;
    (qb0 | qb1) as u8
}

/// Generates aggregation functions like [`aggregate_128()`].
macro_rules! aggregation_func_template {
    {$($name:ident = ($size_small:literal, $size_large:literal);)*} => {
        $(
            #[doc = concat!(
                "Aggregate ",
                stringify!($size_large),
                " buckets into the ",
                stringify!($size_small),
                "-byte digest based on three quartiles.\n",
                "\n",
                "This function requires that:\n",
                "*   `q1 <= q2`\n",
                "*   `q2 <= q3`"
            )]
            #[allow(unsafe_code)]
            #[cfg_attr(not(feature = "detect-features"), inline(always))]
            #[cfg_attr(feature = "detect-features", target_feature(enable = "ssse3"), inline)]
            pub(super) unsafe fn $name(
                out: &mut [u8; $size_small],
                buckets: &[u32; $size_large],
                q1: u32,
                q2: u32,
                q3: u32
            ) {
                for (out, subbuckets) in out.iter_mut().rev().zip(buckets.as_slice().chunks_exact(4)) {
                    *out = sub_aggregation(subbuckets, q1, q2, q3);
                }
            }
        )*
    }
}

aggregation_func_template! {
    aggregate_48  = (12,  48);
    aggregate_128 = (32, 128);
    aggregate_256 = (64, 256);
}
