// Verification hooks (compiled only with `--cfg fast_tlsh_verif`).
//! Raw generator state access for the verification harness.

use super::Generator;
use crate::hashes;

/// Raw generator state: (physical buckets, len, checksum, tail, tail_len).
pub type RawState = (
    [u32; 256],
    usize,
    u32,
    [u8; 3],
    usize,
    [u8; super::WINDOW_SIZE - 1],
    u32,
);

macro_rules! raw_state_impl {
    ($($ty:ty;)*) => {
        $(
            impl Generator<$ty> {
                /// Returns (buckets padded to 256, physical bucket count, len,
                /// checksum padded to 3, checksum size, tail, tail_len).
                pub fn verif_raw_state(&self) -> RawState {
                    let mut buckets = [0u32; 256];
                    let n = self.inner.buckets.buckets.len();
                    buckets[..n].copy_from_slice(&self.inner.buckets.buckets);
                    let mut checksum = [0u8; 3];
                    let c = self.inner.checksum.data();
                    checksum[..c.len()].copy_from_slice(c);
                    (
                        buckets,
                        n,
                        self.inner.len,
                        checksum,
                        c.len(),
                        self.inner.tail,
                        self.inner.tail_len,
                    )
                }

                /// Builds a generator in the given raw state.
                pub fn verif_from_raw_state(
                    buckets: &[u32],
                    len: u32,
                    checksum: &[u8],
                    tail: [u8; super::WINDOW_SIZE - 1],
                    tail_len: u32,
                ) -> Self {
                    let mut g = Self::new();
                    let n = g.inner.buckets.buckets.len();
                    g.inner.buckets.buckets.copy_from_slice(&buckets[..n]);
                    g.inner.len = len;
                    let c = g.inner.checksum.data().len();
                    g.inner.checksum =
                        crate::hash::checksum::FuzzyHashChecksumData::from_raw(
                            checksum[..c].try_into().unwrap(),
                        );
                    g.inner.tail = tail;
                    g.inner.tail_len = tail_len;
                    g
                }
            }
        )*
    };
}

raw_state_impl! {
    hashes::Short;
    hashes::Normal;
    hashes::NormalWithLongChecksum;
    hashes::Long;
    hashes::LongWithLongChecksum;
}
