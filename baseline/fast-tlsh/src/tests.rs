// SPDX-License-Identifier: Apache-2.0 OR MIT
// SPDX-FileCopyrightText: Copyright (C) 2024 Tsukasa OI <floss_ssdeep@irq.a4lg.com>.

//! Tests: [`crate`].

#![cfg(test)]

#[cfg(not(fast_tlsh_tests_without_debug_assertions))]
#[test]
fn prerequisites() {
    assert!(cfg!(debug_assertions), "\
        The tests in this crate requires debug assertions to be enabled (by default).  \
        To test this crate without debug assertions, add rustc flags \"--cfg fast_tlsh_tests_without_debug_assertions\".\
    ");
}
