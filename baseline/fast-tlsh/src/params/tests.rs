// SPDX-License-Identifier: Apache-2.0 OR MIT
// SPDX-FileCopyrightText: Copyright (C) 2024 Tsukasa OI <floss_ssdeep@irq.a4lg.com>.

//! Tests: [`crate::params`] (and re-exported [`crate::hashes`]).

#![cfg(test)]

use crate::buckets::{NUM_BUCKETS_LONG, NUM_BUCKETS_NORMAL, NUM_BUCKETS_SHORT};
use crate::hash::checksum::{FuzzyHashChecksum, CHECKSUM_SIZE_LONG, CHECKSUM_SIZE_NORMAL};
use crate::hashes;
use crate::FuzzyHashType;

#[rustfmt::skip]
#[test]
fn params_buckets() {
    assert_eq!(NUM_BUCKETS_SHORT, hashes::Short::NUMBER_OF_BUCKETS);
    assert_eq!(NUM_BUCKETS_NORMAL, hashes::Normal::NUMBER_OF_BUCKETS);
    assert_eq!(NUM_BUCKETS_NORMAL, hashes::NormalWithLongChecksum::NUMBER_OF_BUCKETS);
    assert_eq!(NUM_BUCKETS_LONG, hashes::Long::NUMBER_OF_BUCKETS);
    assert_eq!(NUM_BUCKETS_LONG, hashes::LongWithLongChecksum::NUMBER_OF_BUCKETS);
}

#[rustfmt::skip]
#[test]
fn params_checksum() {
    assert_eq!(CHECKSUM_SIZE_NORMAL, <<hashes::Short as FuzzyHashType>::ChecksumType as FuzzyHashChecksum>::SIZE);
    assert_eq!(CHECKSUM_SIZE_NORMAL, <<hashes::Normal as FuzzyHashType>::ChecksumType as FuzzyHashChecksum>::SIZE);
    assert_eq!(CHECKSUM_SIZE_NORMAL, <<hashes::Long as FuzzyHashType>::ChecksumType as FuzzyHashChecksum>::SIZE);
    assert_eq!(CHECKSUM_SIZE_LONG, <<hashes::NormalWithLongChecksum as FuzzyHashType>::ChecksumType as FuzzyHashChecksum>::SIZE);
    assert_eq!(CHECKSUM_SIZE_LONG, <<hashes::LongWithLongChecksum as FuzzyHashType>::ChecksumType as FuzzyHashChecksum>::SIZE);
}

#[test]
fn params_sizes() {
    macro_rules! test_case {
        ($ty: ty, $base: expr) => {
            assert_eq!(<$ty>::SIZE_IN_BYTES, $base);
            assert_eq!(<$ty>::LEN_IN_STR_EXCEPT_PREFIX, $base * 2);
            assert_eq!(<$ty>::LEN_IN_STR, ($base * 2) + 2);
        };
    }
    test_case!(hashes::Short, 15);
    test_case!(hashes::Normal, 35);
    test_case!(hashes::NormalWithLongChecksum, 37);
    test_case!(hashes::Long, 67);
    test_case!(hashes::LongWithLongChecksum, 69);
}
