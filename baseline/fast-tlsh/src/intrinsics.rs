// SPDX-License-Identifier: Apache-2.0 OR MIT
// SPDX-FileCopyrightText: Copyright (C) 2024 Tsukasa OI <floss_ssdeep@irq.a4lg.com>.

//! The internal intrinsics.

/// Hints to the compiler that branch condition is likely to be true.
///
/// This is a thin wrapper to [`core::intrinsics::likely()`] and requires
/// `#![feature(core_intrinsics)]` when the `unstable` feature is enabled.
#[inline(always)]
pub(crate) fn likely(value_likely_to_be_true: bool) -> bool {
    cfg_if::cfg_if! {
        if #[cfg(feature = "unstable")] {
            core::intrinsics::likely(value_likely_to_be_true)
        }
        else {
            value_likely_to_be_true
        }
    }
}

/// Hints to the compiler that branch condition is unlikely to be true.
///
/// This is a thin wrapper to [`core::intrinsics::unlikely()`] and requires
/// `#![feature(core_intrinsics)]` when the `unstable` feature is enabled.
#[inline(always)]
pub(crate) fn unlikely(value_unlikely_to_be_true: bool) -> bool {
    cfg_if::cfg_if! {
        if #[cfg(feature = "unstable")] {
            core::intrinsics::unlikely(value_unlikely_to_be_true)
        }
        else {
            value_unlikely_to_be_true
        }
    }
}

mod tests;
