// Verification hooks (compiled only with `--cfg fast_tlsh_verif`).
//! Entry points used by the external verification harness.  Nothing here is
//! compiled unless `--cfg fast_tlsh_verif` is given.

pub use crate::compare::dist_body::verif_hooks::{distance_12_by, distance_32_by, distance_64_by};
pub use crate::generate::bucket_aggregation::verif_hooks::{
    aggregate_128_by, aggregate_256_by, aggregate_48_by,
};
pub use crate::generate::verif_hooks::RawState;

/// Pearson-based bucket mapping (256 buckets).
pub fn b_mapping_256(b0: u8, b1: u8, b2: u8, b3: u8) -> u8 {
    crate::pearson::tlsh_b_mapping_256(b0, b1, b2, b3)
}
/// Pearson-based bucket mapping (48 buckets).
pub fn b_mapping_48(b0: u8, b1: u8, b2: u8, b3: u8) -> u8 {
    crate::pearson::tlsh_b_mapping_48(b0, b1, b2, b3)
}
/// Pearson update (single).
pub fn pearson_update(state: u8, value: u8) -> u8 {
    crate::pearson::update(state, value)
}
/// Pearson update (double).
pub fn pearson_update_double(state: u8, b1: u8, b2: u8) -> u8 {
    crate::pearson::update_double(state, b1, b2)
}
/// Pearson finalization (48 buckets).
pub fn pearson_final_48(state: u8, value: u8) -> u8 {
    crate::pearson::final_48(state, value)
}
/// Length distance.
pub fn distance_length(a: u8, b: u8) -> u32 {
    crate::compare::dist_length::distance(a, b)
}
/// Q ratio pair distance.
pub fn distance_qratios(a: u8, b: u8) -> u32 {
    crate::compare::dist_qratios::distance(a, b)
}
/// Checksum distances.
pub fn distance_checksum_1(a: [u8; 1], b: [u8; 1]) -> u32 {
    crate::compare::dist_checksum::distance_1(a, b)
}
/// Checksum distances.
pub fn distance_checksum_3(a: [u8; 3], b: [u8; 3]) -> u32 {
    crate::compare::dist_checksum::distance_3(a, b)
}
/// Ring distance.
pub fn distance_on_ring_mod(x: u8, y: u8, n: u8) -> u8 {
    crate::compare::utils::distance_on_ring_mod(x, y, n)
}

/// Dumps every constant and table the translator extracts, as compiled.
pub fn dump_constants(f: &mut dyn FnMut(&str, &[u64])) {
    let mut t = [0u64; 256];
    for (d, &s) in t.iter_mut().zip(crate::pearson::SUBST_TABLE.iter()) {
        *d = s as u64;
    }
    f("subst_table", &t);
    f(
        "pearson_initial_state",
        &[crate::pearson::INITIAL_STATE as u64],
    );
    crate::length::verif_hooks::dump(f);
    crate::parse::hex_str::verif_hooks::dump(f);
    crate::compare::dist_body::verif_hooks::dump(f);
    crate::compare::dist_length::verif_hooks::dump(f);
    f(
        "qratios_max_distance",
        &[crate::compare::dist_qratios::MAX_DISTANCE as u64],
    );
    use crate::buckets::constrained::{FuzzyHashBucketMapper as M, FuzzyHashBucketsInfo as I};
    use crate::buckets::{NUM_BUCKETS_LONG, NUM_BUCKETS_NORMAL, NUM_BUCKETS_SHORT};
    f(
        "num_buckets",
        &[
            NUM_BUCKETS_SHORT as u64,
            NUM_BUCKETS_NORMAL as u64,
            NUM_BUCKETS_LONG as u64,
        ],
    );
    f(
        "min_nonzero",
        &[
            <I<NUM_BUCKETS_SHORT> as M>::MIN_NONZERO_BUCKETS as u64,
            <I<NUM_BUCKETS_NORMAL> as M>::MIN_NONZERO_BUCKETS as u64,
            <I<NUM_BUCKETS_LONG> as M>::MIN_NONZERO_BUCKETS as u64,
        ],
    );
    f(
        "checksum_size",
        &[
            crate::hash::checksum::CHECKSUM_SIZE_NORMAL as u64,
            crate::hash::checksum::CHECKSUM_SIZE_LONG as u64,
        ],
    );
    f("window_size", &[crate::generate::WINDOW_SIZE as u64]);
}
