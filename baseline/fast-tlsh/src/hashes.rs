// SPDX-License-Identifier: Apache-2.0 OR MIT
// SPDX-FileCopyrightText: Copyright (C) 2024 Tsukasa OI <floss_ssdeep@irq.a4lg.com>.

//! Fuzzy hashes with specific parameters.
//!
//! # What should I use?
//!
//! [`Normal`], as the name suggests.
//!
//! Other configurations are useful on some cases but often lack interoperability
//! due to the lack of large datasets using non-normal variants.
//!
//! To endorse using this variant, this crate re-exports [`Normal`] as
//! crate global [`Tlsh`](crate::Tlsh).
//!
//! # Configuration
//!
//! This crate provides two configurable parameters:
//!
//! 1.  The number of buckets
//! 2.  The length of the checksum
//!
//! ## Number of Buckets
//!
//! Name                                                       | Value | Body     | Official Name | Meaning
//! ---------------------------------------------------------- | -----:| -------- | ------------- | ------------------------------------------------------------
//! [`NUM_BUCKETS_SHORT`](crate::buckets::NUM_BUCKETS_SHORT)   |  `48` | 12 bytes | min hash      | Short, 48 effective buckets (special Pearson table is used)
//! [`NUM_BUCKETS_NORMAL`](crate::buckets::NUM_BUCKETS_NORMAL) | `128` | 32 bytes | compact hash  | Normal, 128 effective buckets
//! [`NUM_BUCKETS_LONG`](crate::buckets::NUM_BUCKETS_LONG)     | `256` | 64 bytes | full hash     | Long, 256 effective buckets
//!
//! ## Length of the Checksum
//!
//! Name                                                                  | Value | Meaning
//! --------------------------------------------------------------------- | -----:| ----------------------------
//! [`CHECKSUM_SIZE_NORMAL`](crate::hash::checksum::CHECKSUM_SIZE_NORMAL) |   `1` | Normal checksum (in 1-byte)
//! [`CHECKSUM_SIZE_LONG`](crate::hash::checksum::CHECKSUM_SIZE_LONG)     |   `3` | Long checksum (in 3-bytes)
//!
//! # Table of Fuzzy Hash Types and Parameters
//!
//! Bucket size \ Checksum size  | Normal: `1` | Long: `3`
//! ----------------------------:|:----------- |:---------------------------
//!       Short (min hash): `48` | [`Short`]   | N/A
//! Normal (compact hash): `128` | [`Normal`]  | [`NormalWithLongChecksum`]
//!      Long (full hash): `256` | [`Long`]    | [`LongWithLongChecksum`]
//!
//! Note that not all parameter combinations are valid.

pub use crate::params::exported_hashes::*;
