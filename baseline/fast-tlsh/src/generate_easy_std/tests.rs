// SPDX-License-Identifier: Apache-2.0 OR MIT
// SPDX-FileCopyrightText: Copyright (C) 2024 Tsukasa OI <floss_ssdeep@irq.a4lg.com>.

//! Tests: [`crate::generate_easy_std`].

#![cfg(test)]

use super::{hash_file, hash_file_for, hash_stream, hash_stream_for};

use std::fs::File;
use std::io::Read;

use crate::errors::{GeneratorError, GeneratorOrIOError};
use crate::hashes;

const NONEXISTENT_PATH: &str = "data/examples/nonexistent_path";
const EMPTY_PATH: &str = "data/examples/empty.bin";

const SMALL_EXE_PATH: &str = "data/examples/smallexe.exe";
const SMALL_EXE_TLSH_SHORT: &str = "T140E0483A5DFC1B073D86A4A2C55A43";
const SMALL_EXE_TLSH_NORMAL: &str =
    "T1FFE04C037F895471D42E5530499E47473757E5E456D28B13ED1944654C8534C7CE9E01";

#[test]
fn example_hash_stream_for_custom_file() {
    type CustomTlsh = hashes::Short;
    let mut stream = File::open(SMALL_EXE_PATH).unwrap();
    let fuzzy_hash: CustomTlsh = hash_stream_for(&mut stream).unwrap();
    assert_eq!(fuzzy_hash.to_string(), SMALL_EXE_TLSH_SHORT);
}

#[test]
fn example_hash_stream_for_err_stream() {
    type CustomTlsh = hashes::Short;
    // Custom Read implementation (which always fails)
    struct IOFail;
    impl Read for IOFail {
        fn read(&mut self, _buf: &mut [u8]) -> std::io::Result<usize> {
            Err(std::io::Error::from(std::io::ErrorKind::Other))
        }
    }
    let result = hash_stream_for::<CustomTlsh, _>(&mut IOFail);
    println!("{result:?}");
}

#[test]
fn example_hash_stream_for_normal_file() {
    type CustomTlsh = hashes::Normal;
    let mut stream = File::open(SMALL_EXE_PATH).unwrap();
    let fuzzy_hash: CustomTlsh = hash_stream_for(&mut stream).unwrap();
    assert_eq!(fuzzy_hash.to_string(), SMALL_EXE_TLSH_NORMAL);
}

#[test]
fn example_hash_stream_file() {
    let mut stream = File::open(SMALL_EXE_PATH).unwrap();
    let fuzzy_hash = hash_stream(&mut stream).unwrap();
    assert_eq!(fuzzy_hash.to_string(), SMALL_EXE_TLSH_NORMAL);
}

#[test]
fn example_hash_file_for_custom() {
    type CustomTlsh = hashes::Short;
    let fuzzy_hash: CustomTlsh = hash_file_for(SMALL_EXE_PATH).unwrap();
    assert_eq!(fuzzy_hash.to_string(), SMALL_EXE_TLSH_SHORT);
}

#[test]
fn example_hash_file_for_normal() {
    type CustomTlsh = hashes::Normal;
    let fuzzy_hash: CustomTlsh = hash_file_for(SMALL_EXE_PATH).unwrap();
    assert_eq!(fuzzy_hash.to_string(), SMALL_EXE_TLSH_NORMAL);
}

#[test]
fn example_hash_file() {
    let fuzzy_hash = hash_file(SMALL_EXE_PATH).unwrap();
    assert_eq!(fuzzy_hash.to_string(), SMALL_EXE_TLSH_NORMAL);
}

#[test]
fn example_hash_file_nonexistent() {
    let result = hash_file(NONEXISTENT_PATH);
    assert!(matches!(
        result,
        Err(GeneratorOrIOError::IOError(err)) if err.kind() == std::io::ErrorKind::NotFound
    ));
}

#[test]
fn example_hash_file_empty() {
    let result = hash_file(EMPTY_PATH);
    assert!(matches!(
        result,
        Err(GeneratorOrIOError::GeneratorError(
            GeneratorError::TooSmallInput
        ))
    ));
}
