// SPDX-License-Identifier: Apache-2.0 OR MIT
// SPDX-FileCopyrightText: Copyright 2013 Trend Micro Incorporated
// SPDX-FileCopyrightText: Copyright (C) 2024 Tsukasa OI <floss_ssdeep@irq.a4lg.com>.

//! The fuzzy hash generator.

use crate::buckets::constrained::{FuzzyHashBucketMapper, FuzzyHashBucketsInfo};
use crate::buckets::FuzzyHashBucketsData;
use crate::errors::GeneratorError;
use crate::hash::body::{FuzzyHashBody, FuzzyHashBodyData};
use crate::hash::checksum::inner::InnerChecksum;
use crate::hash::checksum::{FuzzyHashChecksum, FuzzyHashChecksumData};
use crate::hash::qratios::FuzzyHashQRatios;
use crate::intrinsics::{likely, unlikely};
use crate::length::{
    ConstrainedLengthProcessingInfo, DataLengthProcessingMode, DataLengthValidity,
    FuzzyHashLengthEncoding, LengthProcessingInfo,
};
use crate::macros::{invariant, optionally_unsafe};
use crate::params::{
    ConstrainedFuzzyHashParams, ConstrainedFuzzyHashType, ConstrainedVerboseFuzzyHashParams,
    VerboseFuzzyHashParams,
};
use crate::{FuzzyHashType, GeneratorType};

pub(crate) mod bucket_aggregation;
#[cfg(fast_tlsh_verif)]
#[allow(missing_docs)]
#[allow(clippy::missing_docs_in_private_items)]
pub(crate) mod verif_hooks;

/// Window size to obtain local features.
///
/// In the TLSH generator, we use a sliding window over the input to
/// capture local features.  In other words, to obtain local feature
/// information, only data inside the window is used.  This way, we'll get the
/// same hash local feature value even if some segments are moved.
///
/// This constant is not designed to be easily configurable.  In the original
/// implementation, it was configurable between 4–8 but we rarely use a
/// non-default constant.
pub const WINDOW_SIZE: usize = 5;

bitflags::bitflags! {
    /// TLSH-compatible generator option flags.
    #[derive(Debug, Clone, PartialEq, Eq)]
    struct TLSHCompatibleGeneratorFlags: u8 {
        /// If set, the generator computes Q ratio values using only
        /// integers (unlike f32 as in the original implementation).
        const PURE_INTEGER_QRATIO_COMPUTATION = 0x01;
    }

    /// TLSH-incompatible generator option flags.
    #[derive(Debug, Clone, PartialEq, Eq)]
    struct TLSHIncompatibleGeneratorFlags: u8 {
        /// If set, it allows smaller file sizes (even smaller than 50 bytes).
        ///
        /// But the will likely statistically weak.  You may need to enable
        /// [`ALLOW_STATISTICALLY_WEAK_BUCKETS_HALF`](Self::ALLOW_STATISTICALLY_WEAK_BUCKETS_HALF) and
        /// [`ALLOW_STATISTICALLY_WEAK_BUCKETS_QUARTER`](Self::ALLOW_STATISTICALLY_WEAK_BUCKETS_QUARTER).
        const ALLOW_SMALL_SIZE_FILES                   = 0x01;
        /// If set, it allows statistically weak buckets
        /// (approximately half or more are empty).
        const ALLOW_STATISTICALLY_WEAK_BUCKETS_HALF    = 0x02;
        /// If set, it allows statistically weak buckets
        /// (approximately 3/4 or more are empty).
        const ALLOW_STATISTICALLY_WEAK_BUCKETS_QUARTER = 0x04;
    }
}

/// The object to group all generator options.
#[derive(Debug, Clone, PartialEq, Eq)]
pub struct GeneratorOptions {
    /// Current processing mode of the data length.
    length_mode: DataLengthProcessingMode,
    /// Flags indicating TLSH-compatible flags.
    compat_flags: TLSHCompatibleGeneratorFlags,
    /// Flags indicating TLSH-incompatible flags.
    incompat_flags: TLSHIncompatibleGeneratorFlags,
}

impl GeneratorOptions {
    /// Creates the default generator options.
    pub fn new() -> Self {
        Self {
            length_mode: Default::default(),
            compat_flags: TLSHCompatibleGeneratorFlags::empty(),
            incompat_flags: TLSHIncompatibleGeneratorFlags::empty(),
        }
    }

    /// Query whether this generator options are compatible to the official
    /// implementation of TLSH.
    ///
    /// If any of the options that are incompatible with the official TLSH
    /// implementation is set, this method will return [`false`].
    ///
    /// Otherwise, it returns [`true`].
    ///
    /// # Example
    ///
    /// ```
    /// use tlsh::generate::GeneratorOptions;
    ///
    /// let mut options = GeneratorOptions::new();
    /// // By default, the option is compatible to the official implementation.
    /// assert!(options.is_tlsh_compatible());
    /// // By allowing statistically weak hashes, it becomes incompatible with
    /// // the official implementation.
    /// let options = options.allow_small_size_files(true);
    /// assert!(!options.is_tlsh_compatible());
    /// ```
    pub fn is_tlsh_compatible(&self) -> bool {
        self.incompat_flags.is_empty()
    }

    /// Set the data length processing mode.
    ///
    /// For more information, see [`DataLengthProcessingMode`].
    ///
    /// # Example
    ///
    /// ```
    /// use core::str::FromStr;
    /// use tlsh::prelude::*;
    /// use tlsh::{GeneratorErrorCategory, GeneratorOptions};
    /// use tlsh::length::DataLengthProcessingMode;
    ///
    /// let mut generator = TlshGenerator::new();
    ///
    /// // With default options, relatively small data (50 bytes) is accepted.
    /// generator.update(b"Lovak won the squad prize cup for sixty big jumps.");
    /// let hash = generator.finalize().unwrap();
    /// let expected = "T14A90024954691E114404124180D942C1450F8423775ADE1510211420456593621A8173";
    /// let expected = Tlsh::from_str(expected).unwrap();
    /// assert_eq!(hash, expected);
    ///
    /// // But with conservative mode, it fails.
    /// // The failure is caused by an "invalid" length (in the conservatide mode).
    /// let result = generator.finalize_with_options(
    ///     GeneratorOptions::new()
    ///         .length_processing_mode(DataLengthProcessingMode::Conservative)
    /// );
    /// assert!(result.is_err());
    /// let err = result.unwrap_err();
    /// assert_eq!(err.category(), GeneratorErrorCategory::DataLength);
    /// ```
    pub fn length_processing_mode(&mut self, value: DataLengthProcessingMode) -> &mut Self {
        self.length_mode = value;
        self
    }

    /// Set whether we compute Q ratio values by pure integers.
    ///
    /// The official implementation (up to version 4.12.0) effectively uses
    /// [`f32`] for computing Q ratio values.  Enabling this option will make
    /// this computation purely integer-based (involving [`u64`]).
    ///
    /// This is [`true`] by default.
    ///
    /// # Compatibility
    ///
    /// The Q ratio computation algorithm is equivalent to following versions:
    ///
    /// *   [`true`] (default): TLSH 4.12.1+
    /// *   [`false`]: TLSH -4.12.0
    pub fn pure_integer_qratio_computation(&mut self, value: bool) -> &mut Self {
        self.compat_flags.set(
            TLSHCompatibleGeneratorFlags::PURE_INTEGER_QRATIO_COMPUTATION,
            value,
        );
        self
    }

    /// (fast-tlsh specific)
    /// Set whether we allow generating fuzzy hashes from very small inputs.
    ///
    /// **Warning**: This is a TLSH-incompatible option.
    ///
    /// # Example
    ///
    /// ```
    /// use core::str::FromStr;
    /// use tlsh::prelude::*;
    /// use tlsh::{GeneratorErrorCategory, GeneratorOptions};
    ///
    /// let mut generator = TlshGenerator::new();
    ///
    /// // With default options, very small data (44 bytes) is rejected
    /// // because it's smaller than the lower limit, 50 bytes.
    /// // The failure is caused by an "invalid" length.
    /// generator.update(b"The quick brown fox jumps over the lazy dog.");
    /// let result = generator.finalize();
    /// assert!(result.is_err());
    /// let err = result.unwrap_err();
    /// assert_eq!(err.category(), GeneratorErrorCategory::DataLength);
    ///
    /// // But with extended permissive mode, it succeeds
    /// // (it's also because the input is not statistically bad for TLSH).
    /// let hash = generator.finalize_with_options(
    ///     GeneratorOptions::new().allow_small_size_files(true)
    /// ).unwrap();
    /// let expected = "T19E90024A21181294648A1888438D94B292C8C510612114116430600218082219C98551";
    /// let expected = Tlsh::from_str(expected).unwrap();
    /// assert_eq!(hash, expected);
    /// ```
    pub fn allow_small_size_files(&mut self, value: bool) -> &mut Self {
        self.incompat_flags.set(
            TLSHIncompatibleGeneratorFlags::ALLOW_SMALL_SIZE_FILES,
            value,
        );
        self
    }

    /// (fast-tlsh specific)
    /// Set whether we allow generating fuzzy hashes from
    /// statistically weak buckets
    /// (when approximately half or more of them are empty).
    ///
    /// **Warning**: This is a TLSH-incompatible option.
    ///
    /// Note that this is a subset of
    /// [`allow_statistically_weak_buckets_quarter()`](Self::allow_statistically_weak_buckets_quarter()).
    /// If you set [`true`] using that method, this parameter is also
    /// considered [`true`] (regardless of the actual value inside).
    ///
    /// # Example
    ///
    /// ```
    /// use core::str::FromStr;
    /// use tlsh::prelude::*;
    /// use tlsh::{GeneratorErrorCategory, GeneratorOptions};
    ///
    /// let mut generator = TlshGenerator::new();
    ///
    /// // With default options, this data (50 bytes) generates statistically
    /// // weak hash (and thus rejected by default).
    /// // The failure is caused by an unbalanced data distribution.
    /// generator.update(b"ABCDEFGHIJKLMNOPQRSTABCDEFGHIJKLMNOPQRSTABCDEFGHIJ");
    /// let result = generator.finalize();
    /// assert!(result.is_err());
    /// let err = result.unwrap_err();
    /// assert_eq!(err.category(), GeneratorErrorCategory::DataDistribution);
    ///
    /// // But with extended permissive mode, it succeeds
    /// // (but you can see that there are too many zeroes which will make
    /// //  the comparison less useful).
    /// let hash = generator.finalize_with_options(
    ///     GeneratorOptions::new().allow_statistically_weak_buckets_half(true)
    /// ).unwrap();
    /// let expected = "T1609000080C838F2A0F2C82C0ECA282F33808838B00CE0300228C2F80C8800E08800000";
    /// let expected = Tlsh::from_str(expected).unwrap();
    /// assert_eq!(hash.to_string(), expected.to_string());
    /// ```
    pub fn allow_statistically_weak_buckets_half(&mut self, value: bool) -> &mut Self {
        self.incompat_flags.set(
            TLSHIncompatibleGeneratorFlags::ALLOW_STATISTICALLY_WEAK_BUCKETS_HALF,
            value,
        );
        self
    }

    /// (fast-tlsh specific)
    /// Set whether we allow generating fuzzy hashes from
    /// statistically weak buckets
    /// (when approximately 3/4 or more of them are empty).
    ///
    /// **Warning**: This is a TLSH-incompatible option.
    ///
    /// Note that this is a superset of
    /// [`allow_statistically_weak_buckets_half()`](Self::allow_statistically_weak_buckets_half()).
    /// If you set [`true`] using this method, it will ignore the parameter set by
    /// [`allow_statistically_weak_buckets_half()`](Self::allow_statistically_weak_buckets_half()).
    ///
    /// # Example
    ///
    /// ```
    /// use core::str::FromStr;
    /// use tlsh::prelude::*;
    /// use tlsh::{GeneratorErrorCategory, GeneratorOptions};
    ///
    /// let mut generator = TlshGenerator::new();
    ///
    /// // With default options or only half-bucket empty data is accepted,
    /// // this data (50 bytes) generates statistically weaker hash
    /// // (and thus rejected by default).
    /// // This is even stronger failure than a half-empty buckets.
    /// // The failure is caused by an *extremely* unbalanced data distribution.
    /// generator.update(b"ABCDEABCDEABCDEABCDEABCDEABCDEABCDEABCDEABCDEABCDE");
    /// let result = generator.finalize_with_options(
    ///     GeneratorOptions::new().allow_statistically_weak_buckets_half(true)
    /// );
    /// assert!(result.is_err());
    /// let err = result.unwrap_err();
    /// assert_eq!(err.category(), GeneratorErrorCategory::DataDistribution);
    ///
    /// // But with extended permissive mode, it succeeds
    /// // (but you can see that there are too many zeroes which will make
    /// //  the comparison less useful).
    /// let hash = generator.finalize_with_options(
    ///     GeneratorOptions::new().allow_statistically_weak_buckets_quarter(true)
    /// ).unwrap();
    /// let expected = "T14590440C330003C00C0033000000C300F000C00300C030000000C3000000000000C000";
    /// let expected = Tlsh::from_str(expected).unwrap();
    /// assert_eq!(hash.to_string(), expected.to_string());
    /// ```
    pub fn allow_statistically_weak_buckets_quarter(&mut self, value: bool) -> &mut Self {
        self.incompat_flags.set(
            TLSHIncompatibleGeneratorFlags::ALLOW_STATISTICALLY_WEAK_BUCKETS_QUARTER,
            value,
        );
        self
    }
}
impl Default for GeneratorOptions {
    fn default() -> Self {
        Self::new()
    }
}

/// The public part for later `pub use` at crate root.
pub(crate) mod public {
    use super::*;

    /// The trait to represent a fuzzy hash generator.
    ///
    /// This trait is implemented by [`Generator`].
    pub trait GeneratorType {
        /// The output type.
        type Output: FuzzyHashType;

        /// Whether the checksum is updated by this generator type.
        ///
        /// If this type is [`false`], the resulting fuzzy hash from this
        /// generator will have checksum part with all zeroes.
        ///
        /// In the official TLSH implementation, it is always [`true`]
        /// except multi-threaded and private modes.  This crate currently
        /// does not support those modes but will be implemented in the future.
        const IS_CHECKSUM_EFFECTIVE: bool;

        /// The minimum data length
        /// (on [all modes](DataLengthProcessingMode)).
        const MIN: u32;

        /// The minimum data length
        /// (on [the conservative mode](DataLengthProcessingMode::Conservative)).
        const MIN_CONSERVATIVE: u32;

        /// The maximum data length (inclusive).
        const MAX: u32;

        /// Returns the data length it processed.
        ///
        /// If the generator is unable to represent exact data length it
        /// processed, it returns [`None`].  Otherwise, the exact data length is
        /// returned by [`Some`].
        fn processed_len(&self) -> Option<u32>;

        /// Update the generator by feeding data to it.
        fn update(&mut self, data: &[u8]);

        /// Finalize the fuzzy hash with specified options.
        ///
        /// You will likely use the default options and use
        /// [`finalize()`](Self::finalize()) instead.
        fn finalize_with_options(
            &self,
            options: &GeneratorOptions,
        ) -> Result<Self::Output, GeneratorError>;

        /// Finalize the fuzzy hash with the default options.
        ///
        /// If you want to use [a custom generator options](GeneratorError),
        /// use [`finalize_with_options()`](Self::finalize_with_options())
        /// instead.
        #[inline(always)]
        fn finalize(&self) -> Result<Self::Output, GeneratorError> {
            self.finalize_with_options(&Default::default())
        }

        /// Tests: count non-zero buckets.
        #[cfg(test)]
        fn count_nonzero_buckets(&self) -> usize;
    }
}

/// The inner representation and its implementation.
pub(crate) mod inner {
    use super::*;

    /// The fuzzy hash generator corresponding specified parameters.
    #[derive(Debug, Clone, PartialEq, Eq)]
    pub struct Generator<
        const SIZE_CKSUM: usize,
        const SIZE_BODY: usize,
        const SIZE_BUCKETS: usize,
        const SIZE_IN_BYTES: usize,
        const SIZE_IN_STR_BYTES: usize,
    >
    where
        FuzzyHashBodyData<SIZE_BODY>: FuzzyHashBody,
        FuzzyHashBucketsInfo<SIZE_BUCKETS>: FuzzyHashBucketMapper,
        FuzzyHashChecksumData<SIZE_CKSUM, SIZE_BUCKETS>: FuzzyHashChecksum,
        VerboseFuzzyHashParams<
            SIZE_CKSUM,
            SIZE_BODY,
            SIZE_BUCKETS,
            SIZE_IN_BYTES,
            SIZE_IN_STR_BYTES,
        >: ConstrainedVerboseFuzzyHashParams,
        LengthProcessingInfo<SIZE_BUCKETS>: ConstrainedLengthProcessingInfo,
    {
        /// The buckets to store local features.
        pub(super) buckets: FuzzyHashBucketsData<SIZE_BUCKETS>,

        /// The total length of the input *after we finish filling*
        /// [`tail`](Self::tail).
        ///
        /// We have to add [`tail_len`](Self::tail_len) to get the minimum
        /// length we processed because it excludes the length of
        /// [`tail`](Self::tail).
        pub(super) len: u32,

        /// The checksum determined from the data (and number of buckets).
        pub(super) checksum: FuzzyHashChecksumData<SIZE_CKSUM, SIZE_BUCKETS>,

        /// Previous (last) bytes processed.
        ///
        /// Physical size of this array is [`TAIL_SIZE`](Self::TAIL_SIZE) which
        /// is equal to one less than [`WINDOW_SIZE`].
        ///
        /// This is because we'll process the file by a sliding window of the
        /// size [`WINDOW_SIZE`].  For instance, the first processed window is
        /// the contents of this array plus the first byte (the total length is
        /// [`WINDOW_SIZE`]).
        ///
        /// The effective length is handled separately by
        /// [`tail_len`](Self::tail_len).
        pub(super) tail: [u8; WINDOW_SIZE - 1],

        /// The effective length of [`tail`](Self::tail).
        ///
        /// If we haven't processed enough number of bytes yet, this is smaller
        /// than the length of [`tail`](Self::tail) and we have to wait more
        /// data to be fed.
        pub(super) tail_len: u32,
    }

    impl<
            const SIZE_CKSUM: usize,
            const SIZE_BODY: usize,
            const SIZE_BUCKETS: usize,
            const SIZE_IN_BYTES: usize,
            const SIZE_IN_STR_BYTES: usize,
        > Generator<SIZE_CKSUM, SIZE_BODY, SIZE_BUCKETS, SIZE_IN_BYTES, SIZE_IN_STR_BYTES>
    where
        FuzzyHashBodyData<SIZE_BODY>: FuzzyHashBody,
        FuzzyHashBucketsInfo<SIZE_BUCKETS>: FuzzyHashBucketMapper<
            RawBodyType = [u8; SIZE_BODY],
            RawBucketType = [u32; SIZE_BUCKETS],
        >,
        FuzzyHashChecksumData<SIZE_CKSUM, SIZE_BUCKETS>: FuzzyHashChecksum,
        VerboseFuzzyHashParams<
            SIZE_CKSUM,
            SIZE_BODY,
            SIZE_BUCKETS,
            SIZE_IN_BYTES,
            SIZE_IN_STR_BYTES,
        >: ConstrainedVerboseFuzzyHashParams,
        LengthProcessingInfo<SIZE_BUCKETS>: ConstrainedLengthProcessingInfo,
    {
        /// The maximum length of [`tail`](Self::tail) which is equal to one
        /// less than [`WINDOW_SIZE`].
        ///
        /// If [`tail_len`](Self::tail_len) gets to this value and we have more
        /// bytes to process, we start processing the file using
        /// [`WINDOW_SIZE`]-byte sliding window.
        const TAIL_SIZE: u32 = (WINDOW_SIZE - 1) as u32;

        /// The maximum [`len`](Self::len), which is equal to the value first
        /// overflows [`u32`] if we calculate `len + tail_len`.
        const MAX_LEN: u32 = u32::MAX - (Self::TAIL_SIZE - 1);

        /// TLSH's B (bucket) mapping suitable for this generator.
        #[inline(always)]
        fn b_mapping(v0: u8, v1: u8, v2: u8, v3: u8) -> u8 {
            FuzzyHashBucketsInfo::<SIZE_BUCKETS>::b_mapping(v0, v1, v2, v3)
        }
    }
    impl<
            const SIZE_CKSUM: usize,
            const SIZE_BODY: usize,
            const SIZE_BUCKETS: usize,
            const SIZE_IN_BYTES: usize,
            const SIZE_IN_STR_BYTES: usize,
        > Default
        for Generator<SIZE_CKSUM, SIZE_BODY, SIZE_BUCKETS, SIZE_IN_BYTES, SIZE_IN_STR_BYTES>
    where
        FuzzyHashBodyData<SIZE_BODY>: FuzzyHashBody,
        FuzzyHashBucketsInfo<SIZE_BUCKETS>: FuzzyHashBucketMapper<
            RawBodyType = [u8; SIZE_BODY],
            RawBucketType = [u32; SIZE_BUCKETS],
        >,
        FuzzyHashChecksumData<SIZE_CKSUM, SIZE_BUCKETS>: FuzzyHashChecksum,
        VerboseFuzzyHashParams<
            SIZE_CKSUM,
            SIZE_BODY,
            SIZE_BUCKETS,
            SIZE_IN_BYTES,
            SIZE_IN_STR_BYTES,
        >: ConstrainedVerboseFuzzyHashParams,
        LengthProcessingInfo<SIZE_BUCKETS>: ConstrainedLengthProcessingInfo,
    {
        fn default() -> Self {
            Self {
                buckets: FuzzyHashBucketsData::new(),
                len: 0,
                checksum: FuzzyHashChecksumData::new(),
                tail: [0; WINDOW_SIZE - 1],
                tail_len: 0,
            }
        }
    }
    impl<
            const SIZE_CKSUM: usize,
            const SIZE_BODY: usize,
            const SIZE_BUCKETS: usize,
            const SIZE_IN_BYTES: usize,
            const SIZE_IN_STR_BYTES: usize,
        > crate::GeneratorType
        for Generator<SIZE_CKSUM, SIZE_BODY, SIZE_BUCKETS, SIZE_IN_BYTES, SIZE_IN_STR_BYTES>
    where
        FuzzyHashBodyData<SIZE_BODY>: FuzzyHashBody,
        FuzzyHashBucketsInfo<SIZE_BUCKETS>: FuzzyHashBucketMapper<
            RawBodyType = [u8; SIZE_BODY],
            RawBucketType = [u32; SIZE_BUCKETS],
        >,
        FuzzyHashChecksumData<SIZE_CKSUM, SIZE_BUCKETS>: FuzzyHashChecksum,
        VerboseFuzzyHashParams<
            SIZE_CKSUM,
            SIZE_BODY,
            SIZE_BUCKETS,
            SIZE_IN_BYTES,
            SIZE_IN_STR_BYTES,
        >: ConstrainedVerboseFuzzyHashParams,
        LengthProcessingInfo<SIZE_BUCKETS>: ConstrainedLengthProcessingInfo,
    {
        type Output = crate::hash::inner::FuzzyHash<
            SIZE_CKSUM,
            SIZE_BODY,
            SIZE_BUCKETS,
            SIZE_IN_BYTES,
            SIZE_IN_STR_BYTES,
        >;

        const IS_CHECKSUM_EFFECTIVE: bool = true;
        const MIN: u32 = LengthProcessingInfo::<SIZE_BUCKETS>::MIN;
        const MIN_CONSERVATIVE: u32 = LengthProcessingInfo::<SIZE_BUCKETS>::MIN_CONSERVATIVE;
        const MAX: u32 = LengthProcessingInfo::<SIZE_BUCKETS>::MAX;

        fn processed_len(&self) -> Option<u32> {
            self.len.checked_add(self.tail_len)
        }

        fn update(&mut self, data: &[u8]) {
            // Fill self.tail (before we start updating).
            let mut data = data;
            if self.tail_len < Self::TAIL_SIZE {
                let tail_len = self.tail_len as usize;
                let remaining = Self::TAIL_SIZE as usize - tail_len;
                if data.len() <= remaining {
                    self.tail[tail_len..tail_len + data.len()].copy_from_slice(data);
                    self.tail_len += data.len() as u32;
                    // self.tail is not yet filled
                    // (or filled but no more bytes to update).
                    return;
                }
                self.tail[tail_len..].copy_from_slice(&data[..remaining]);
                self.tail_len += remaining as u32;
                // self.tail is now filled and we have more data. Continuing.
                data = &data[remaining..];
            }
            // If we have processed 4GiB already, ignore the rest.
            optionally_unsafe! {
                invariant!(Self::TAIL_SIZE > 0);
            }
            if unlikely(self.len >= Self::MAX_LEN) {
                return;
            }
            // Update the processed data length
            let mut data_len = u32::try_from(data.len()).unwrap_or(u32::MAX);
            if unlikely(data_len > Self::MAX_LEN - self.len) {
                // Processing the data exceeds the first 4GiB.
                data_len = Self::MAX_LEN - self.len;
                data = &data[..data_len as usize];
            }
            self.len += data_len;
            // Update the buckets based on the 5-byte window.
            let (mut b0, mut b1, mut b2, mut b3) =
                (self.tail[0], self.tail[1], self.tail[2], self.tail[3]);
            for &b4 in data {
                // Update the checksum and buckets
                self.checksum.update(b4, b3);
                self.buckets.increment(Self::b_mapping(0x2, b4, b3, b2));
                self.buckets.increment(Self::b_mapping(0x3, b4, b3, b1));
                self.buckets.increment(Self::b_mapping(0x5, b4, b2, b1));
                self.buckets.increment(Self::b_mapping(0x7, b4, b2, b0));
                self.buckets.increment(Self::b_mapping(0xb, b4, b3, b0));
                self.buckets.increment(Self::b_mapping(0xd, b4, b1, b0));
                // Shift
                (b0, b1, b2, b3) = (b1, b2, b3, b4);
            }
            // Update self.tail.
            if likely(data.len() >= self.tail.len()) {
                // Full overwrite
                self.tail
                    .copy_from_slice(&data[data.len() - Self::TAIL_SIZE as usize..]);
            } else {
                // Partial overwrite (shift and write)
                self.tail.copy_within(data.len().., 0);
                self.tail[(Self::TAIL_SIZE as usize) - data.len()..].copy_from_slice(data);
            }
        }

        fn finalize_with_options(
            &self,
            options: &GeneratorOptions,
        ) -> Result<Self::Output, GeneratorError> {
            let len = self.processed_len().unwrap_or(u32::MAX); // assume u32::MAX is an invalid value.
            let validity = DataLengthValidity::new::<SIZE_BUCKETS>(len);
            if validity.is_err_on(options.length_mode) {
                match validity {
                    DataLengthValidity::TooLarge => {
                        return Err(GeneratorError::TooLargeInput);
                    }
                    _ => {
                        if !options
                            .incompat_flags
                            .contains(TLSHIncompatibleGeneratorFlags::ALLOW_SMALL_SIZE_FILES)
                        {
                            return Err(GeneratorError::TooSmallInput);
                        }
                    }
                }
            }
            // Get encoded length part.
            let lvalue = FuzzyHashLengthEncoding::new(len).unwrap();
            // Get quartile values and number of non-zero buckets.
            let buckets: [u32; SIZE_BUCKETS] = self.buckets.data().try_into().unwrap();
            let nonzero_count = buckets.iter().filter(|&&x| x != 0).count();
            let mut copy_buckets = buckets;
            let (l0, &mut mut q2, l1) = copy_buckets.select_nth_unstable(SIZE_BUCKETS / 2 - 1);
            let (_, &mut mut q1, _) = l0.select_nth_unstable(SIZE_BUCKETS / 4 - 1);
            let (_, &mut mut q3, _) = l1.select_nth_unstable(SIZE_BUCKETS / 4 - 1);
            // Reject if the data distribution is too statistically unbalanced
            // (so that an attempt to calculate Q ratios will cause an issue)
            // unless an option is specified
            // (in this case, dummy quartile values are set).
            if q3 == 0 {
                if !options.incompat_flags.contains(
                    TLSHIncompatibleGeneratorFlags::ALLOW_STATISTICALLY_WEAK_BUCKETS_QUARTER,
                ) {
                    return Err(GeneratorError::BucketsAreThreeQuarterEmpty);
                }
                // Set a value to force outputting a fuzzy hash.
                (q1, q2, q3) = (1, 1, 1);
            }
            // Reject if the data distribution is statistically unbalanced
            // unless an option is specified.
            if nonzero_count < FuzzyHashBucketsInfo::<SIZE_BUCKETS>::MIN_NONZERO_BUCKETS
                && !options.incompat_flags.intersects(
                    TLSHIncompatibleGeneratorFlags::ALLOW_STATISTICALLY_WEAK_BUCKETS_HALF
                        | TLSHIncompatibleGeneratorFlags::ALLOW_STATISTICALLY_WEAK_BUCKETS_QUARTER,
                )
            {
                return Err(GeneratorError::BucketsAreHalfEmpty);
            }
            // Get the Q ratios.
            let (q1ratio, q2ratio) = if options
                .compat_flags
                .contains(TLSHCompatibleGeneratorFlags::PURE_INTEGER_QRATIO_COMPUTATION)
            {
                (
                    (((q1 as u64 * 100) / q3 as u64) % 16) as u8,
                    (((q2 as u64 * 100) / q3 as u64) % 16) as u8,
                )
            } else {
                (
                    (((q1.wrapping_mul(100) as f32) / q3 as f32) as u32 % 16) as u8,
                    (((q2.wrapping_mul(100) as f32) / q3 as f32) as u32 % 16) as u8,
                )
            };
            let qratios = FuzzyHashQRatios::new(q1ratio, q2ratio);
            // Compute the body part.
            let mut body = [0u8; SIZE_BODY];
            FuzzyHashBucketsInfo::<SIZE_BUCKETS>::aggregate_buckets(
                &mut body, &buckets, q1, q2, q3,
            );
            // Return the new fuzzy hash object.
            Ok(Self::Output::from_raw(
                FuzzyHashBodyData::from_raw(body),
                self.checksum,
                lvalue,
                qratios,
            ))
        }

        #[cfg(test)]
        fn count_nonzero_buckets(&self) -> usize {
            // Excerpt from finalize_with_options above.
            let buckets: [u32; SIZE_BUCKETS] = self.buckets.data().try_into().unwrap();
            buckets.iter().filter(|&&x| x != 0).count()
        }
    }
}

/// The macro representing the inner generator type.
macro_rules! inner_type {
    ($ty:ty) => {
        <<$ty as ConstrainedFuzzyHashType>::Params as ConstrainedFuzzyHashParams>::InnerGeneratorType
    };
}

/// The fuzzy hash generator corresponding specified fuzzy hash type.
///
/// For the main functionalities, see [`GeneratorType`] documentation.
#[derive(Debug, Clone)]
pub struct Generator<T: ConstrainedFuzzyHashType> {
    /// The inner object representing actual contents of the generator.
    pub(crate) inner:
        <<T as ConstrainedFuzzyHashType>::Params as ConstrainedFuzzyHashParams>::InnerGeneratorType,
}
impl<T: ConstrainedFuzzyHashType> Generator<T> {
    /// Creates the new generator.
    #[inline(always)]
    pub fn new() -> Self {
        Self {
            inner: Default::default(),
        }
    }
}
impl<T: ConstrainedFuzzyHashType> Default for Generator<T> {
    fn default() -> Self {
        Self::new()
    }
}
impl<T: ConstrainedFuzzyHashType> GeneratorType for Generator<T> {
    type Output = T;

    const IS_CHECKSUM_EFFECTIVE: bool = <inner_type!(T)>::IS_CHECKSUM_EFFECTIVE;
    const MIN: u32 = <inner_type!(T)>::MIN;
    const MIN_CONSERVATIVE: u32 = <inner_type!(T)>::MIN_CONSERVATIVE;
    const MAX: u32 = <inner_type!(T)>::MAX;

    #[inline(always)]
    fn processed_len(&self) -> Option<u32> {
        self.inner.processed_len()
    }

    #[inline(always)]
    fn update(&mut self, data: &[u8]) {
        self.inner.update(data);
    }

    #[inline(always)]
    fn finalize_with_options(
        &self,
        options: &GeneratorOptions,
    ) -> Result<Self::Output, GeneratorError> {
        self.inner.finalize_with_options(options).map(T::new)
    }

    #[cfg(test)]
    fn count_nonzero_buckets(&self) -> usize {
        self.inner.count_nonzero_buckets()
    }
}

pub(crate) mod tests;
