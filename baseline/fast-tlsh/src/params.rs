// SPDX-License-Identifier: Apache-2.0 OR MIT
// SPDX-FileCopyrightText: Copyright (C) 2024 Tsukasa OI <floss_ssdeep@irq.a4lg.com>.

//! The TLSH parameters.

use crate::buckets::{NUM_BUCKETS_LONG, NUM_BUCKETS_NORMAL, NUM_BUCKETS_SHORT};
use crate::hash::checksum::{CHECKSUM_SIZE_LONG, CHECKSUM_SIZE_NORMAL};
use crate::{FuzzyHashType, GeneratorType};

/// The private part.
mod private {
    /// The sealed trait for verbose parameters.
    pub trait SealedVerboseParam {}
    /// The sealed trait for parameters.
    pub trait SealedParam {}
    /// The sealed trait for constrained fuzzy hashes.
    pub trait SealedFuzzyHashes {}
}

/// A marker struct for fuzzy hashing parameters.
pub struct FuzzyHashParams<const SIZE_CKSUM: usize, const SIZE_BUCKETS: usize>;

/// An adapter trait for valid fuzzy hashing parameters.
pub trait ConstrainedFuzzyHashParams: private::SealedParam {
    /// The inner fuzzy hash type used by the public implementation.
    ///
    /// This is an instantiation of
    /// [`FuzzyHash`](crate::hash::inner::FuzzyHash).
    type InnerFuzzyHashType: FuzzyHashType
        + core::fmt::Debug
        + core::fmt::Display
        + Clone
        + Copy
        + PartialEq
        + Eq;
    /// The inner generator type used by the public implementation.
    ///
    /// This is an instantiation of
    /// [`Generator`](crate::generate::inner::Generator).
    type InnerGeneratorType: GeneratorType<Output = Self::InnerFuzzyHashType>
        + core::fmt::Debug
        + Default
        + Clone;
}

/// An adapter trait for valid public fuzzy hash types.
pub trait ConstrainedFuzzyHashType:
    private::SealedFuzzyHashes
    + core::fmt::Debug
    + core::fmt::Display
    + FuzzyHashType
    + Clone
    + PartialEq
    + Eq
{
    /// The parameters corresponding the type.
    type Params: ConstrainedFuzzyHashParams;
    /// Creates an object from the inner object.
    fn new(inner: <Self::Params as ConstrainedFuzzyHashParams>::InnerFuzzyHashType) -> Self;
}

/// A marker struct for fuzzy hashing parameters (verbose).
pub struct VerboseFuzzyHashParams<
    const SIZE_CKSUM: usize,
    const SIZE_BODY: usize,
    const SIZE_BUCKETS: usize,
    const SIZE_IN_BYTES: usize,
    const SIZE_IN_STR_BYTES: usize,
>;

/// A marker trait for valid fuzzy hashing parameters (verbose).
pub trait ConstrainedVerboseFuzzyHashParams: private::SealedVerboseParam {}
impl<T> ConstrainedVerboseFuzzyHashParams for T where T: private::SealedVerboseParam {}

/// The macro to convert symbolic buckets constant name to string.
macro_rules! param_buckets_desc {
    (NUM_BUCKETS_SHORT) => {
        "Short"
    };
    (NUM_BUCKETS_NORMAL) => {
        "Normal"
    };
    (NUM_BUCKETS_LONG) => {
        "Long"
    };
}

/// The macro to convert symbolic buckets constant name to the official name.
macro_rules! param_buckets_desc_alt {
    (NUM_BUCKETS_SHORT) => {
        "min hash"
    };
    (NUM_BUCKETS_NORMAL) => {
        "compact hash"
    };
    (NUM_BUCKETS_LONG) => {
        "full hash"
    };
}

/// The macro to convert symbolic checksum constant name to string.
macro_rules! param_checksum_desc {
    (CHECKSUM_SIZE_NORMAL) => {
        "1-byte"
    };
    (CHECKSUM_SIZE_LONG) => {
        "3-byte"
    };
}

/// The inner fuzzy hash type.
macro_rules! inner_fuzzy_hash_type {
    ($size_checksum:expr, $size_buckets:tt) => {
        $crate::hash::inner::FuzzyHash<
            {$size_checksum},
            {$size_buckets / 4},
            {$size_buckets},
            {$size_buckets / 4 + 2 + $size_checksum},
            {($size_buckets / 4 + 2 + $size_checksum) * 2 + 2}
        >
    };
}

/// The inner generator type.
macro_rules! inner_generator_type {
    ($size_checksum:expr, $size_buckets:tt) => {
        $crate::generate::inner::Generator<
            {$size_checksum},
            {$size_buckets / 4},
            {$size_buckets},
            {$size_buckets / 4 + 2 + $size_checksum},
            {($size_buckets / 4 + 2 + $size_checksum) * 2 + 2}
        >
    };
}

/// The fuzzy hash parameter template generator.
macro_rules! params {
    {$($name:ident = ($size_checksum:tt, $size_buckets:tt);)*} => {
        $(
            impl private::SealedParam
                for FuzzyHashParams<{$size_checksum}, {$size_buckets}>
            {
            }
            impl private::SealedVerboseParam
                for VerboseFuzzyHashParams<
                    {$size_checksum},
                    {$size_buckets / 4},
                    {$size_buckets},
                    {$size_buckets / 4 + 2 + $size_checksum},
                    {($size_buckets / 4 + 2 + $size_checksum) * 2 + 2}
                >
            {
            }
            impl ConstrainedFuzzyHashParams for FuzzyHashParams<{$size_checksum}, {$size_buckets}> {
                type InnerFuzzyHashType = inner_fuzzy_hash_type!($size_checksum, $size_buckets);
                type InnerGeneratorType = inner_generator_type!($size_checksum, $size_buckets);
            }
            impl private::SealedFuzzyHashes
                for crate::hash::FuzzyHash<{$size_checksum}, {$size_buckets}>
            {
            }
            impl ConstrainedFuzzyHashType for crate::hash::FuzzyHash<{$size_checksum}, {$size_buckets}> {
                type Params = FuzzyHashParams<{$size_checksum}, {$size_buckets}>;
                fn new(inner: <Self::Params as ConstrainedFuzzyHashParams>::InnerFuzzyHashType) -> Self {
                    Self::new(inner)
                }
            }
        )*
        /// Fuzzy hash types for later re-exports.
        pub(crate) mod exported_hashes {
            use super::*;
            $(
                #[doc = concat!(
                    param_buckets_desc!($size_buckets),
                    " fuzzy hash type (",
                    param_buckets_desc_alt!($size_buckets),
                    ") with ",
                    param_checksum_desc!($size_checksum),
                    " checksum.\n",
                    "\n",
                    "For more information about the implementation, see ",
                    "[`FuzzyHashType`](crate::FuzzyHashType).\n",
                    "\n",
                    "For other types with different parameters, ",
                    "see the [module documentation](crate::hashes)."
                )]
                pub type $name =
                    crate::hash::FuzzyHash<{$size_checksum}, {$size_buckets}>;
            )*
        }
    };
}
params! {
    Short                  = (CHECKSUM_SIZE_NORMAL, NUM_BUCKETS_SHORT);
    Normal                 = (CHECKSUM_SIZE_NORMAL, NUM_BUCKETS_NORMAL);
    NormalWithLongChecksum = (CHECKSUM_SIZE_LONG,   NUM_BUCKETS_NORMAL);
    Long                   = (CHECKSUM_SIZE_NORMAL, NUM_BUCKETS_LONG);
    LongWithLongChecksum   = (CHECKSUM_SIZE_LONG,   NUM_BUCKETS_LONG);
}

mod tests;
