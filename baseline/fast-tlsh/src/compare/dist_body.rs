// SPDX-License-Identifier: Apache-2.0 OR MIT
// SPDX-FileCopyrightText: Copyright (C) 2024 Tsukasa OI <floss_ssdeep@irq.a4lg.com>.

//! TLSH body comparison.
//!
//! The distance of two TLSH bodies is the sum of quartile distances.
//! For each quartile values (2-bits each), we take an absolute difference.
//! If the raw quartile distance is the maximum (i.e. if one is `0b00` and
//! the another is `0b11`), the raw quartile distance (`3`) is replaced with the
//! implementation-defined constant: [`6`](BODY_OUTLIER_VALUE).
//!
//! Unlike the official implementation, this constant is not designed to be
//! easily configurable in this crate but we usually use this parameter unless
//! you are experimenting with your custom workloads.
//!
//! Not only that, SIMD and pseudo-SIMD implementations assume that this value
//! equals to `6` (logical / arithmetic expression suitable for SIMD is found
//! by machine assuming this constant and will drastically change depending
//! on this constant).
//!
//! For the internal algorithm, see
//! [SIMD-friendly TLSH Body Distance Calculation](crate::_docs::internal_simd_dist_body).

#[cfg(all(
    feature = "simd-per-arch",
    feature = "opt-simd-body-comparison",
    feature = "detect-features",
    feature = "unstable",
    target_arch = "arm",
    target_feature = "v7"
))]
use std::arch::is_arm_feature_detected;
#[cfg(all(
    feature = "simd-per-arch",
    feature = "opt-simd-body-comparison",
    feature = "detect-features",
    any(target_arch = "x86", target_arch = "x86_64")
))]
use std::arch::is_x86_feature_detected;
#[cfg(all(
    feature = "simd-per-arch",
    feature = "opt-simd-body-comparison",
    feature = "detect-features",
    any(
        target_arch = "x86",
        target_arch = "x86_64",
        all(target_arch = "arm", feature = "unstable", target_feature = "v7")
    )
))]
use std::sync::OnceLock;

mod arm_neon;
#[allow(dead_code)]
mod portable_simd;
#[allow(dead_code)]
mod pseudo_simd_32;
#[allow(dead_code)]
mod pseudo_simd_64;
mod x86_avx2;
mod x86_sse2;
mod x86_sse4_1;
#[cfg(fast_tlsh_verif)]
#[allow(missing_docs)]
#[allow(clippy::missing_docs_in_private_items)]
pub(crate) mod verif_hooks;

mod fuzzer;

/// The body outlier value when the difference is the maximum (`0b11`).
pub const BODY_OUTLIER_VALUE: u32 = 6;
static_assertions::const_assert!(BODY_OUTLIER_VALUE >= 0b11); // must be at least 3.

/// The maximum distance between two 12-byte bodies.
pub const MAX_DISTANCE_SHORT: u32 = 12 * 4 * BODY_OUTLIER_VALUE;

/// The maximum distance between two 32-byte bodies.
pub const MAX_DISTANCE_NORMAL: u32 = 32 * 4 * BODY_OUTLIER_VALUE;

/// The maximum distance between two 64-byte bodies.
pub const MAX_DISTANCE_LONG: u32 = 64 * 4 * BODY_OUTLIER_VALUE;

/// 32-byte variant of the distance computation function.
///
/// By default, this is a reference to either [`pseudo_simd_64::distance_32()`]
/// or [`pseudo_simd_32::distance_32()`].
///
/// If the platform is detected to have specific features (e.g. SIMD
/// instructions), this is overridden with a reference to the suitable function
/// (or its wrapper).
#[allow(clippy::type_complexity)]
#[cfg(all(
    feature = "simd-per-arch",
    feature = "opt-simd-body-comparison",
    feature = "detect-features",
    any(
        target_arch = "x86",
        target_arch = "x86_64",
        all(target_arch = "arm", feature = "unstable", target_feature = "v7")
    )
))]
#[cfg_attr(
    feature = "unstable",
    doc(cfg(all(
        feature = "simd-per-arch",
        feature = "opt-simd-body-comparison",
        feature = "detect-features"
    )))
)]
static DISPATCH_DISTANCE_32: OnceLock<&'static (dyn Fn(&[u8; 32], &[u8; 32]) -> u32 + Sync)> =
    OnceLock::new();

/// 64-byte variant of the distance computation function.
///
/// By default, this is a reference to either [`pseudo_simd_64::distance_64()`]
/// or [`pseudo_simd_32::distance_64()`].
///
/// If the platform is detected to have specific features (e.g. SIMD
/// instructions), this is overridden with a reference to the suitable function
/// (or its wrapper).
#[allow(clippy::type_complexity)]
#[cfg(all(
    feature = "simd-per-arch",
    feature = "opt-simd-body-comparison",
    feature = "detect-features",
    any(
        target_arch = "x86",
        target_arch = "x86_64",
        all(target_arch = "arm", feature = "unstable", target_feature = "v7")
    )
))]
#[cfg_attr(
    feature = "unstable",
    doc(cfg(all(
        feature = "simd-per-arch",
        feature = "opt-simd-body-comparison",
        feature = "detect-features"
    )))
)]
static DISPATCH_DISTANCE_64: OnceLock<&'static (dyn Fn(&[u8; 64], &[u8; 64]) -> u32 + Sync)> =
    OnceLock::new();

/// Generates distance functions like [`distance_32()`].
///
/// Note that is doesn't generate [`distance_12()`] (the shortest variant)
/// because handling this variant using SIMD can be very inefficient.
macro_rules! distance_func_template {
    {$($name:ident = ($size:literal, $dispatch:path);)*} => {
        $(
            #[doc = concat!("Computes the distance between two ", stringify!($size), "-byte TLSH bodies.")]
            #[inline]
            pub fn $name(body1: &[u8; $size], body2: &[u8; $size]) -> u32 {
                cfg_if::cfg_if! {
                    if #[cfg(all(
                        feature = "simd-per-arch",
                        feature = "opt-simd-body-comparison",
                        feature = "detect-features",
                        any(
                            target_arch = "x86",
                            target_arch = "x86_64",
                            all(target_arch = "arm", feature = "unstable", target_feature = "v7")
                        )
                    ))] {
                        // Detect runtime CPU features, cache and call
                        $dispatch.get_or_init(|| {
                            #[cfg(all(target_arch = "arm"))]
                            {
                                if is_arm_feature_detected!("neon") {
                                    return &|body1, body2| {
                                        #[allow(unsafe_code)]
                                        unsafe {
                                            arm_neon::$name(body1, body2)
                                        }
                                    };
                                }
                            }
                            #[cfg(any(target_arch = "x86", target_arch = "x86_64"))]
                            {
                                if is_x86_feature_detected!("avx2") {
                                    return &|body1, body2| {
                                        #[allow(unsafe_code)]
                                        unsafe {
                                            x86_avx2::$name(body1, body2)
                                        }
                                    };
                                }
                                if is_x86_feature_detected!("sse4.1") {
                                    return &|body1, body2| {
                                        #[allow(unsafe_code)]
                                        unsafe {
                                            x86_sse4_1::$name(body1, body2)
                                        }
                                    };
                                }
                                if is_x86_feature_detected!("sse2") {
                                    return &|body1, body2| {
                                        #[allow(unsafe_code)]
                                        unsafe {
                                            x86_sse2::$name(body1, body2)
                                        }
                                    };
                                }
                            }
                            if usize::BITS >= 64 {
                                &pseudo_simd_64::$name
                            } else {
                                &pseudo_simd_32::$name
                            }
                        })(body1, body2)
                    }
                    else if #[cfg(all(
                        feature = "simd-per-arch",
                        feature = "opt-simd-body-comparison",
                        target_arch = "aarch64",
                        target_feature = "neon"
                    ))] {
                        #[allow(unsafe_code)]
                        unsafe {
                            arm_neon::$name(body1, body2)
                        }
                    }
                    else if #[cfg(all(
                        feature = "simd-per-arch",
                        feature = "opt-simd-body-comparison",
                        target_arch = "arm",
                        feature = "unstable",
                        target_feature = "v7",
                        target_feature = "neon"
                    ))] {
                        #[allow(unsafe_code)]
                        unsafe {
                            arm_neon::$name(body1, body2)
                        }
                    }
                    else if #[cfg(all(
                        feature = "simd-per-arch",
                        feature = "opt-simd-body-comparison",
                        any(target_arch = "x86", target_arch = "x86_64"),
                        target_feature = "avx2"
                    ))] {
                        #[allow(unsafe_code)]
                        unsafe {
                            x86_avx2::$name(body1, body2)
                        }
                    }
                    else if #[cfg(all(
                        feature = "simd-per-arch",
                        feature = "opt-simd-body-comparison",
                        any(target_arch = "x86", target_arch = "x86_64"),
                        target_feature = "sse4.1"
                    ))] {
                        #[allow(unsafe_code)]
                        unsafe {
                            x86_sse4_1::$name(body1, body2)
                        }
                    }
                    else if #[cfg(all(
                        feature = "simd-per-arch",
                        feature = "opt-simd-body-comparison",
                        any(target_arch = "x86", target_arch = "x86_64"),
                        target_feature = "sse2"
                    ))] {
                        #[allow(unsafe_code)]
                        unsafe {
                            x86_sse2::$name(body1, body2)
                        }
                    }
                    else if #[cfg(all(
                        feature = "simd-portable",
                        feature = "opt-simd-body-comparison"
                    ))] {
                        portable_simd::$name(body1, body2)
                    }
                    else {
                        if usize::BITS >= 64 {
                            pseudo_simd_64::$name(body1, body2)
                        } else {
                            pseudo_simd_32::$name(body1, body2)
                        }
                    }
                }
            }
        )*
    }
}

distance_func_template! {
    distance_32 = (32, DISPATCH_DISTANCE_32);
    distance_64 = (64, DISPATCH_DISTANCE_64);
}

/// Computes the distance between two 12-byte TLSH bodies.
#[cfg_attr(feature = "unstable", coverage(off))]
pub fn distance_12(body1: &[u8; 12], body2: &[u8; 12]) -> u32 {
    if usize::BITS >= 64 {
        pseudo_simd_64::distance_12(body1, body2)
    } else {
        pseudo_simd_32::distance_12(body1, body2)
    }
}

/// The naïve implementation.
#[cfg(any(doc, test))]
#[cfg_attr(feature = "unstable", doc(cfg(all())))]
pub(crate) mod naive {
    /// Computes the distance between two dibits.
    pub fn distance_dibits(x: u8, y: u8) -> u32 {
        assert!(x < 4);
        assert!(y < 4);
        let diff = u32::abs_diff(x as u32, y as u32);
        if diff == 0b11 {
            super::BODY_OUTLIER_VALUE
        } else {
            diff
        }
    }

    /// Computes the distance between two TLSH bodies (in variable length).
    pub fn distance<const N: usize>(body1: &[u8; N], body2: &[u8; N]) -> u32 {
        body1
            .iter()
            .zip(body2.iter())
            .map(|(&x, &y)| {
                (0..4u32)
                    .map(move |i| {
                        // Extract each dibit (0b00-0b11) and take abs(x-y)
                        let nx = (x >> (i * 2)) & 0b11;
                        let ny = (y >> (i * 2)) & 0b11;
                        distance_dibits(nx, ny)
                    })
                    .sum::<u32>()
            })
            .sum::<u32>()
    }
}

mod tests;
