// SPDX-License-Identifier: Apache-2.0 OR MIT
// SPDX-FileCopyrightText: Copyright (C) 2024 Tsukasa OI <floss_ssdeep@irq.a4lg.com>

//! TLSH length comparison.
//!
//! This depends on the difference of encoded 8-bit length specifier.
//! If their [distance (on the ring of modulo 256)](crate::compare::utils::distance_on_ring_mod())
//! is equal to or less than `1`, that value is the distance.  If not, the raw
//! distance `d` is multiplied by the implementation-defined constant:
//! [`12`](length_mult_value!()).
//!
//! Unlike the official implementation, this constant is not designed to be
//! easily configurable in this crate but we usually use this parameter unless
//! you are experimenting with your custom workloads.

use crate::compare::utils::distance_on_ring_mod;

#[cfg(fast_tlsh_verif)]
#[allow(missing_docs)]
#[allow(clippy::missing_docs_in_private_items)]
pub(crate) mod verif_hooks;

/// The length distance multiplier as an ambiguously-typed literal.
macro_rules! length_mult {
    () => {
        12
    };
}
#[cfg(doc)]
use length_mult as length_mult_value;

/// The maximum distance between two length encodings.
pub const MAX_DISTANCE: u32 = 0x80 * length_mult!();

/// The intermediate type used by [`LDIST_VALUE`].
#[cfg(any(doc, feature = "opt-dist-length-table"))]
type LengthDistanceTableType = u16;

/// Precomputed table for length value distances.
///
/// Since it depends on the wrapped `lvalue1 - lvalue2` (8-bit), we can just
/// create a 256-element table.
///
/// The type of elements in this table is [`LengthDistanceTableType`].
#[cfg(any(doc, feature = "opt-dist-length-table"))]
const LDIST_VALUE: [LengthDistanceTableType; 256] = {
    let mut array = [0; 256];
    let mut i = 0;
    while i < 256 {
        let dist = distance_on_ring_mod(0, i as u8, 0) as LengthDistanceTableType;
        array[i] = if dist <= 1 {
            dist
        } else {
            dist * length_mult!()
        };
        i += 1;
    }
    array
};

/// Computes the distance between two encoded length values.
///
/// Each `lvalue` encodes approximated size of the input and this function
/// takes the difference between two such values.
#[inline(always)]
pub const fn distance(lvalue1: u8, lvalue2: u8) -> u32 {
    cfg_if::cfg_if! {
        if #[cfg(feature = "opt-dist-length-table")] {
            LDIST_VALUE[lvalue1.wrapping_sub(lvalue2) as usize] as u32
        }
        else {
            naive::distance(lvalue1, lvalue2)
        }
    }
}

/// The naïve implementation.
#[cfg(any(test, doc, not(feature = "opt-dist-length-table")))]
pub(crate) mod naive {
    use super::*;

    /// Computes distance between two encoded length values.
    ///
    /// Each `lvalue` encodes approximated size of the input.
    #[inline]
    pub const fn distance(lvalue1: u8, lvalue2: u8) -> u32 {
        let dist = distance_on_ring_mod(lvalue1, lvalue2, 0) as u32;
        if dist <= 1 {
            dist
        } else {
            dist * length_mult!()
        }
    }
}

mod tests;
