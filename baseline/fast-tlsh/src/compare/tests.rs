// SPDX-License-Identifier: Apache-2.0 OR MIT
// SPDX-FileCopyrightText: Copyright (C) 2024 Tsukasa OI <floss_ssdeep@irq.a4lg.com>.

//! Tests: [`crate::compare`].

#![cfg(test)]

use core::str::FromStr;

use crate::{FuzzyHashType, Tlsh};

#[test]
fn tlsh_timing_unittest_vectors() {
    // Displayed in the official implementation's timing_unittest.
    let hash1 = "T1A12500088C838B0A0F0EC3C0ACAB82F3B8228B0308CFA302338C0F0AE2C24F28000008";
    let hash2 = "T129251210F4C18D0A5F0661C4F64D905B585253A3024F022323E5074CC5601904886D1C";
    let hash1 = Tlsh::from_str(hash1).unwrap();
    let hash2 = Tlsh::from_str(hash2).unwrap();
    let expected = 138;
    assert_eq!(hash1.compare(&hash2), expected);
    assert_eq!(hash2.compare(&hash1), expected);
}
