// Verification hooks (compiled only with `--cfg fast_tlsh_verif`).
//! Dumps the compiled length distance constants.

/// Dumps the compiled constants of this module.
pub fn dump(f: &mut dyn FnMut(&str, &[u64])) {
    f("length_max_distance", &[super::MAX_DISTANCE as u64]);
}
