// SPDX-License-Identifier: Apache-2.0 OR MIT
// SPDX-FileCopyrightText: Copyright (C) 2024 Tsukasa OI <floss_ssdeep@irq.a4lg.com>.

//! Tests: [`crate::compare::dist_length`].

#![cfg(test)]

use super::naive;

#[cfg(feature = "opt-dist-length-table")]
use super::LengthDistanceTableType;

#[test]
fn arithmetic_correctness_naive() {
    // No arithmetic overflow occurs on the naïve implementation.
    // 0x80 is the maximum value of mod_diff(x, y, 256).
    assert!(0x80u32.checked_mul(length_mult!()).is_some());
}

#[cfg(feature = "opt-dist-length-table")]
#[test]
fn table_consistency()
where
    LengthDistanceTableType: From<u8>,
    u32: From<LengthDistanceTableType>,
{
    // Above constraints make sures that u8 ⊆ LengthDistanceTableType ⊆ u32.
    // 0x80 is the maximum value of mod_diff(x, y, 256).
    let dist = LengthDistanceTableType::from(0x80u8);
    assert!(dist.checked_mul(length_mult!()).is_some());
}

#[test]
fn equivalence_optimized_impl() {
    for lvalue2 in u8::MIN..=u8::MAX {
        for lvalue1 in u8::MIN..=u8::MAX {
            assert_eq!(
                super::distance(lvalue1, lvalue2),
                naive::distance(lvalue1, lvalue2)
            );
        }
    }
}
