// SPDX-License-Identifier: Apache-2.0 OR MIT
// SPDX-FileCopyrightText: Copyright (C) 2024 Tsukasa OI <floss_ssdeep@irq.a4lg.com>.

//! Tests: `crate::compare::utils`.

#![cfg(test)]

use std::collections::hash_map::Entry;
use std::collections::HashMap;

use crate::compare::utils::generic;

#[test]
fn mod_diff_16() {
    for y in 0..16u8 {
        for x in 0..16u8 {
            // Constant implementation matches with the generic implementation.
            assert_eq!(
                super::distance_on_ring_mod(x, y, 16),
                generic::distance_on_ring_mod(x, y, 16)
            );
            // The function is symmetric.
            assert_eq!(
                super::distance_on_ring_mod(x, y, 16),
                super::distance_on_ring_mod(y, x, 16)
            );
            // mod_diff(x, y, 16) in u8 works as expected.
            assert_eq!(
                generic::distance_on_ring_mod(x, y, 16) as u16,
                generic::distance_on_ring_mod(x as u16, y as u16, 16)
            );
        }
    }
}

#[test]
fn mod_diff_16_dependency() {
    let mut values = HashMap::<u8, u8>::new();
    for y in 0..16u8 {
        for x in 0..16u8 {
            // mod_diff(x, y, 16) only depends on the wrapped difference % 16.
            let diff = x.wrapping_sub(y) % 16;
            let dist = super::distance_on_ring_mod(x, y, 16);
            match values.entry(diff) {
                Entry::Occupied(e) => {
                    assert_eq!(*(e.get()), dist);
                }
                Entry::Vacant(e) => {
                    e.insert(dist);
                }
            }
        }
    }
}

#[test]
fn mod_diff_16_max() {
    assert_eq!(
        (0..16u8)
            .map(|x| super::distance_on_ring_mod(x, 0, 16))
            .max(),
        Some(0x08),
    );
}

#[test]
fn mod_diff_256() {
    for y in u8::MIN..=u8::MAX {
        for x in u8::MIN..=u8::MAX {
            // Constant implementation matches with the generic implementation.
            assert_eq!(
                super::distance_on_ring_mod(x, y, 0),
                generic::distance_on_ring_mod(x, y, 0)
            );
            // The function is symmetric.
            assert_eq!(
                super::distance_on_ring_mod(x, y, 0),
                super::distance_on_ring_mod(y, x, 0)
            );
            // mod_diff(x as u16, y as u16, 256) (where x and y u8)
            // equals distance_on_ring_mod::<u8>(x, y, 0).
            assert_eq!(
                generic::distance_on_ring_mod(x, y, 0) as u16,
                generic::distance_on_ring_mod(x as u16, y as u16, 256)
            );
        }
    }
}

#[test]
fn mod_diff_256_dependency() {
    let mut values = HashMap::<u8, u8>::new();
    for y in u8::MIN..=u8::MAX {
        for x in u8::MIN..=u8::MAX {
            // mod_diff(x, y, 256) only depends on the wrapped difference.
            let diff = x.wrapping_sub(y);
            let dist = super::distance_on_ring_mod(x, y, 0);
            match values.entry(diff) {
                Entry::Occupied(e) => {
                    assert_eq!(*(e.get()), dist);
                }
                Entry::Vacant(e) => {
                    e.insert(dist);
                }
            }
        }
    }
}

#[test]
fn mod_diff_256_max() {
    assert_eq!(
        (u8::MIN..=u8::MAX)
            .map(|x| super::distance_on_ring_mod(x, 0, 0))
            .max(),
        Some(0x80),
    );
}
