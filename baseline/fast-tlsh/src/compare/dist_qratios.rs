// SPDX-License-Identifier: Apache-2.0 OR MIT
// SPDX-FileCopyrightText: Copyright (C) 2024 Tsukasa OI <floss_ssdeep@irq.a4lg.com>

//! TLSH Q ratio pair comparison.
//!
//! This module accepts an [`u8`] as a pair of Q ratio values,
//! encoded as lower and upper nibbles (4-bits each).
//!
//! For each of the Q ratio, we calculate [the distance (on the ring of modulo 16)](crate::compare::utils::distance_on_ring_mod()).
//! If this is equal to or less than `1`, that value is the sub-distance.
//! If not, the raw sub-distance `d` is subtracted by 1 and then multiplied by
//! the implementation-defined constant: [`12`](qratio_mult_value!()).
//!
//! The final distance is the sum of two sub-distances.
//!
//! Unlike the official implementation, this constant is not designed to be
//! easily configurable in this crate but we usually use this parameter unless
//! you are experimenting with your custom workloads.

/// The Q ratio distance multiplier as an ambiguously-typed literal.
macro_rules! qratio_mult {
    () => {
        12
    };
}
#[cfg(doc)]
use qratio_mult as qratio_mult_value;

/// The maximum distance between two Q ratio pairs.
pub const MAX_DISTANCE: u32 = 2 * ((0x08 - 1) * qratio_mult!());

/// The intermediate type used by [`QDIST_VALUE`].
#[cfg(any(
    doc,
    all(
        feature = "opt-dist-qratios-table",
        not(feature = "opt-dist-qratios-table-double")
    )
))]
type QRatiosDistanceTableType = u8;

/// Precomputed table for Q ratio value distances.
///
/// This table corresponds to [`naive::sub_distance()`] (16x16 possible values).
///
/// The type of elements in this table is [`QRatiosDistanceTableType`].
#[cfg(any(
    doc,
    all(
        feature = "opt-dist-qratios-table",
        not(feature = "opt-dist-qratios-table-double")
    )
))]
const QDIST_VALUE: [[QRatiosDistanceTableType; 16]; 16] = {
    let mut array = [[0; 16]; 16];
    let mut yi = 0;
    while yi < 16 {
        let y = yi as u8;
        let mut xi = 0;
        while xi < 16 {
            let x = xi as u8;
            array[yi][xi] = naive::sub_distance(x, y) as QRatiosDistanceTableType;
            xi += 1;
        }
        yi += 1;
    }
    array
};

/// The intermediate type used by [`QDIST_VALUE_2`].
#[cfg(any(doc, feature = "opt-dist-qratios-table-double"))]
type QRatiosDistanceTableType2 = u8;

/// Precomputed table for Q ratio pair value distances.
///
/// This table corresponds to [`naive::distance()`] (256x256 possible values).
///
/// The type of elements in this table is [`QRatiosDistanceTableType2`].
#[cfg(any(doc, feature = "opt-dist-qratios-table-double"))]
static QDIST_VALUE_2: [[QRatiosDistanceTableType2; 256]; 256] = {
    let mut array = [[0; 256]; 256];
    let mut yi = 0;
    while yi < 256 {
        let y = yi as u8;
        let mut xi = 0;
        while xi < 256 {
            let x = xi as u8;
            array[yi][xi] = naive::distance(x, y) as QRatiosDistanceTableType2;
            xi += 1;
        }
        yi += 1;
    }
    array
};

/// Computes the distance between two Q ratio pair values.
///
/// Each `qratios` is composed of two Q ratio values (4-bits each) and the sum
/// of the distances of Q ratio values with the same position.
#[inline]
pub fn distance(qratios1: u8, qratios2: u8) -> u32 {
    cfg_if::cfg_if! {
        if #[cfg(feature = "opt-dist-qratios-table-double")] {
            QDIST_VALUE_2[qratios1 as usize][qratios2 as usize] as u32
        }
        else if #[cfg(feature = "opt-dist-qratios-table")] {
            let q1ratio_1 = (qratios1 & 0x0f) as usize;
            let q2ratio_1 = (qratios1 >> 4) as usize;
            let q1ratio_2 = (qratios2 & 0x0f) as usize;
            let q2ratio_2 = (qratios2 >> 4) as usize;
            QDIST_VALUE[q1ratio_1][q1ratio_2] as u32 + QDIST_VALUE[q2ratio_1][q2ratio_2] as u32
        }
        else {
            naive::distance(qratios1, qratios2)
        }
    }
}

/// The naïve implementation.
mod naive {
    use crate::compare::utils::distance_on_ring_mod;

    /// Computes the distance between two Q ratio values.
    ///
    /// This function compares two Q ratio values (`0..16`).
    /// The result of [`distance()`] is the sum of two calls of this function.
    #[inline(always)]
    pub const fn sub_distance(qratio_1: u8, qratio_2: u8) -> u32 {
        let dist = distance_on_ring_mod(qratio_1, qratio_2, 16) as u32;
        if dist <= 1 {
            dist
        } else {
            (dist - 1) * qratio_mult!()
        }
    }

    /// Computes the distance between two Q ratio pair values.
    ///
    /// Each `qratios` is composed of two Q ratio values (4-bits each) and the sum
    /// of [the distances of Q ratio values with the same position](sub_distance()).
    #[cfg(any(
        test,
        doc,
        feature = "opt-dist-qratios-table-double",
        not(feature = "opt-dist-qratios-table")
    ))]
    #[cfg_attr(feature = "unstable", doc(cfg(all())))]
    #[inline]
    pub const fn distance(qratios1: u8, qratios2: u8) -> u32 {
        // Representation as in the internal representation.
        let q1ratio_1 = qratios1 & 0x0f;
        let q2ratio_1 = qratios1 >> 4;
        let q1ratio_2 = qratios2 & 0x0f;
        let q2ratio_2 = qratios2 >> 4;
        sub_distance(q1ratio_1, q1ratio_2) + sub_distance(q2ratio_1, q2ratio_2)
    }
}

mod tests;
