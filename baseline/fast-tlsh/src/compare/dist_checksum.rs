// SPDX-License-Identifier: Apache-2.0 OR MIT
// SPDX-FileCopyrightText: Copyright (C) 2024 Tsukasa OI <floss_ssdeep@irq.a4lg.com>

//! TLSH checksum comparison.
//!
//! Calculation of this distance is quite simple.
//! For each checksum byte, `0` if they are the same and `1` if not.
//!
//! We usually use 1-byte checksum and the range of the distance is `0..=1`.
//! If we use 3-byte checksum, the range is `0..=3`.  If we don't have any
//! checksum bytes, the distance is always `0`.

/// Computes the distance between two 1-byte checksum values.
#[inline(always)]
pub const fn distance_1(checksum1: [u8; 1], checksum2: [u8; 1]) -> u32 {
    if checksum1[0] != checksum2[0] {
        1
    } else {
        0
    }
}

/// Computes the distance between two 3-byte checksum values.
#[inline(always)]
pub const fn distance_3(checksum1: [u8; 3], checksum2: [u8; 3]) -> u32 {
    let mut sum = 0;
    let mut i = 0;
    while i < 3 {
        sum += if checksum1[i] != checksum2[i] { 1 } else { 0 };
        i += 1;
    }
    sum
}

#[cfg(test)]
pub(crate) mod generic {
    /// Computes distance on the ring of integer modulo `n`.
    ///
    /// This function calculates distance between `x` and `y` on the ring
    /// of integer modulo `n` (except `n` is zero; in this case, this is handled
    /// as `T::max + 1`).
    ///
    /// `T` must be a primitive unsigned integer type.
    ///
    /// This is the `mod_diff` function in the original paper and many compatible
    /// implementations.
    #[inline]
    pub fn distance<const N: usize>(checksum1: [u8; N], checksum2: [u8; N]) -> u32 {
        let mut sum = 0;
        for (&x, &y) in checksum1.iter().zip(checksum2.iter()) {
            sum += if x != y { 1 } else { 0 };
        }
        sum
    }
}

mod tests;
