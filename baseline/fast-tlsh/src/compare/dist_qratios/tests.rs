// SPDX-License-Identifier: Apache-2.0 OR MIT
// SPDX-FileCopyrightText: Copyright (C) 2024 Tsukasa OI <floss_ssdeep@irq.a4lg.com>.

//! Tests: [`crate::compare::dist_qratios`].

#![cfg(test)]

use super::naive;

#[cfg(all(
    feature = "opt-dist-qratios-table",
    not(feature = "opt-dist-qratios-table-double")
))]
use super::QRatiosDistanceTableType;
#[cfg(feature = "opt-dist-qratios-table-double")]
use super::QRatiosDistanceTableType2;

#[test]
fn arithmetic_correctness_naive() {
    // No arithmetic overflow occurs on the naïve implementation.
    // 0x08 is the maximum value of mod_diff(x, y, 16).
    assert!(0x08u32
        .checked_sub(1)
        .and_then(|x| x.checked_mul(2))
        .and_then(|x| x.checked_mul(qratio_mult!()))
        .is_some());
}

#[cfg(all(
    feature = "opt-dist-qratios-table",
    not(feature = "opt-dist-qratios-table-double")
))]
#[allow(clippy::useless_conversion)]
#[test]
fn table_consistency()
where
    QRatiosDistanceTableType: From<u8>,
    u32: From<QRatiosDistanceTableType>,
{
    // Above constraints make sures that u8 ⊆ QRatiosDistanceTableType ⊆ u32.
    // 0x08 is the maximum value of mod_diff(x, y, 16).
    let dist = QRatiosDistanceTableType::from(0x08u8);
    assert!(dist
        .checked_sub(1)
        .and_then(|x| x.checked_mul(qratio_mult!()))
        .is_some());
}

#[cfg(feature = "opt-dist-qratios-table-double")]
#[allow(clippy::useless_conversion)]
#[test]
fn table_consistency_double()
where
    QRatiosDistanceTableType2: From<u8>,
    u32: From<QRatiosDistanceTableType2>,
{
    // Above constraints make sures that u8 ⊆ QRatiosDistanceTableType2 ⊆ u32.
    // 0x08 is the maximum value of mod_diff(x, y, 16).
    let dist = QRatiosDistanceTableType2::from(0x08u8);
    assert!(dist
        .checked_sub(1)
        .and_then(|x| x.checked_mul(2))
        .and_then(|x| x.checked_mul(qratio_mult!()))
        .is_some());
}

#[test]
fn equivalence_optimized_impl() {
    for qratios2 in u8::MIN..=u8::MAX {
        for qratios1 in u8::MIN..=u8::MAX {
            assert_eq!(
                super::distance(qratios1, qratios2),
                naive::distance(qratios1, qratios2)
            );
        }
    }
}
