// SPDX-License-Identifier: Apache-2.0 OR MIT
// SPDX-FileCopyrightText: Copyright 2013 Trend Micro Incorporated
// SPDX-FileCopyrightText: Copyright (C) 2024 Tsukasa OI <floss_ssdeep@irq.a4lg.com>

//! Utility for measuring distance between two sub-data items.

/// Computes distance on the ring of integer modulo `n`.
///
/// This function calculates the distance between `x` and `y` on the ring
/// of integer modulo `n` (except `n` is zero; in this case, this is handled
/// as `256`, which is [`u8::MAX`]` + 1`).
///
/// This is the `mod_diff` function in the original paper and many compatible
/// implementations (although all of them I've seen use `256` instead of `0`).
#[inline]
pub const fn distance_on_ring_mod(x: u8, y: u8, n: u8) -> u8 {
    debug_assert!(n == 0 || x < n);
    debug_assert!(n == 0 || y < n);
    // Swapping (dl, dr) on the either side helps optimization.
    let (dl, dr) = if x >= y {
        (x.wrapping_sub(y), y.wrapping_add(n).wrapping_sub(x))
    } else {
        (x.wrapping_add(n).wrapping_sub(y), y.wrapping_sub(x))
    };
    // Take the minimum (because u8::min is unavailable in the constant context)
    if dl <= dr {
        dl
    } else {
        dr
    }
}

/// The generic implementation.
#[cfg(any(doc, test))]
#[cfg_attr(feature = "unstable", doc(cfg(all())))]
pub(crate) mod generic {
    use core::num::Wrapping;
    use num_traits::Unsigned;

    /// Computes distance on the ring of integer modulo `n`.
    ///
    /// This function calculates the distance between `x` and `y` on the ring
    /// of integer modulo `n` (except `n` is zero; in this case, this is handled
    /// as `T::MAX + 1`).
    ///
    /// `T` must be a primitive unsigned integer type.
    ///
    /// This is the `mod_diff` function in the original paper and many compatible
    /// implementations.
    #[inline]
    pub fn distance_on_ring_mod<T>(x: T, y: T, n: T) -> T
    where
        T: PartialEq + Ord + Unsigned,
        Wrapping<T>: Copy + Ord + Unsigned,
    {
        debug_assert!(n == T::zero() || x < n);
        debug_assert!(n == T::zero() || y < n);
        let x = Wrapping(x);
        let y = Wrapping(y);
        let n = Wrapping(n);
        // Swapping (dl, dr) on the either side helps optimization.
        let (dl, dr) = if x >= y {
            (x - y, y + n - x)
        } else {
            (x + n - y, y - x)
        };
        core::cmp::min(dl.0, dr.0)
    }
}

mod tests;
