// SPDX-License-Identifier: Apache-2.0 OR MIT
// SPDX-FileCopyrightText: Copyright (C) 2024 Tsukasa OI <floss_ssdeep@irq.a4lg.com>.

//! Tests: [`crate::compare::dist_checksum`].

#![cfg(test)]

use super::generic;

#[test]
fn test_distance_1() {
    const BINARY: &[u8] = &[0, 1];
    let mut x = [0u8; 1];
    let mut y = [0u8; 1];
    // Only equality is checked
    for &y0 in BINARY {
        y[0] = y0;
        for &x0 in BINARY {
            x[0] = x0;
            assert_eq!(super::distance_1(x, y), generic::distance(x, y));
        }
    }
}

#[test]
fn test_distance_3() {
    const BINARY: &[u8] = &[0, 1];
    let mut x = [0u8; 3];
    let mut y = [0u8; 3];
    // Only equality is checked
    for &y0 in BINARY {
        y[0] = y0;
        for &y1 in BINARY {
            y[1] = y1;
            for &y2 in BINARY {
                y[2] = y2;
                for &x0 in BINARY {
                    x[0] = x0;
                    for &x1 in BINARY {
                        x[1] = x1;
                        for &x2 in BINARY {
                            x[2] = x2;
                            assert_eq!(super::distance_3(x, y), generic::distance(x, y));
                        }
                    }
                }
            }
        }
    }
}
