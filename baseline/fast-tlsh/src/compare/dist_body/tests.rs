// SPDX-License-Identifier: Apache-2.0 OR MIT
// SPDX-FileCopyrightText: Copyright (C) 2024 Tsukasa OI <floss_ssdeep@irq.a4lg.com>.

//! Tests: [`crate::compare::dist_body`].

#![cfg(test)]

use super::naive::{self, distance_dibits};
use super::{pseudo_simd_32, pseudo_simd_64};

use crate::hash::body::{BODY_SIZE_LONG, BODY_SIZE_NORMAL, BODY_SIZE_SHORT};

#[test]
fn max_quartile_distance() {
    // Before substitution by BODY_OUTLIAR_VALUE, the maximum value is 3.
    for x in 0b00..=0b11u8 {
        for y in 0b00..=0b11u8 {
            assert!(x.abs_diff(y) <= 0b11);
        }
    }
}

trait BodyDistanceImpls<const SIZE_BODY: usize> {
    fn naive(body1: &[u8; SIZE_BODY], body2: &[u8; SIZE_BODY]) -> u32;
    fn fast(body1: &[u8; SIZE_BODY], body2: &[u8; SIZE_BODY]) -> u32;
    fn pseudo_simd_32(body1: &[u8; SIZE_BODY], body2: &[u8; SIZE_BODY]) -> u32;
    fn pseudo_simd_64(body1: &[u8; SIZE_BODY], body2: &[u8; SIZE_BODY]) -> u32;
}

struct BodyDistance<const SIZE_BODY: usize>;

impl BodyDistanceImpls<BODY_SIZE_SHORT> for BodyDistance<BODY_SIZE_SHORT> {
    fn naive(body1: &[u8; BODY_SIZE_SHORT], body2: &[u8; BODY_SIZE_SHORT]) -> u32 {
        naive::distance(body1, body2)
    }

    fn fast(body1: &[u8; BODY_SIZE_SHORT], body2: &[u8; BODY_SIZE_SHORT]) -> u32 {
        super::distance_12(body1, body2)
    }

    fn pseudo_simd_32(body1: &[u8; BODY_SIZE_SHORT], body2: &[u8; BODY_SIZE_SHORT]) -> u32 {
        pseudo_simd_32::distance_12(body1, body2)
    }

    fn pseudo_simd_64(body1: &[u8; BODY_SIZE_SHORT], body2: &[u8; BODY_SIZE_SHORT]) -> u32 {
        // THIS IS INTENTIONAL (since there's no distance_12 on pseudo_simd_32)
        pseudo_simd_32::distance_12(body1, body2)
    }
}

impl BodyDistanceImpls<BODY_SIZE_NORMAL> for BodyDistance<BODY_SIZE_NORMAL> {
    fn naive(body1: &[u8; BODY_SIZE_NORMAL], body2: &[u8; BODY_SIZE_NORMAL]) -> u32 {
        naive::distance(body1, body2)
    }

    fn fast(body1: &[u8; BODY_SIZE_NORMAL], body2: &[u8; BODY_SIZE_NORMAL]) -> u32 {
        super::distance_32(body1, body2)
    }

    fn pseudo_simd_32(body1: &[u8; BODY_SIZE_NORMAL], body2: &[u8; BODY_SIZE_NORMAL]) -> u32 {
        pseudo_simd_32::distance_32(body1, body2)
    }

    fn pseudo_simd_64(body1: &[u8; BODY_SIZE_NORMAL], body2: &[u8; BODY_SIZE_NORMAL]) -> u32 {
        pseudo_simd_64::distance_32(body1, body2)
    }
}

impl BodyDistanceImpls<BODY_SIZE_LONG> for BodyDistance<BODY_SIZE_LONG> {
    fn naive(body1: &[u8; BODY_SIZE_LONG], body2: &[u8; BODY_SIZE_LONG]) -> u32 {
        naive::distance(body1, body2)
    }

    fn fast(body1: &[u8; BODY_SIZE_LONG], body2: &[u8; BODY_SIZE_LONG]) -> u32 {
        super::distance_64(body1, body2)
    }

    fn pseudo_simd_32(body1: &[u8; BODY_SIZE_LONG], body2: &[u8; BODY_SIZE_LONG]) -> u32 {
        pseudo_simd_32::distance_64(body1, body2)
    }

    fn pseudo_simd_64(body1: &[u8; BODY_SIZE_LONG], body2: &[u8; BODY_SIZE_LONG]) -> u32 {
        pseudo_simd_64::distance_64(body1, body2)
    }
}

#[test]
fn equivalence_optimized_impl() {
    fn test<const SIZE_BODY: usize>()
    where
        BodyDistance<SIZE_BODY>: BodyDistanceImpls<SIZE_BODY>,
    {
        // Single dibit difference
        for index in 0..SIZE_BODY * 4 {
            for a in 0..4 {
                let mut body_a = [0u8; SIZE_BODY];
                body_a[SIZE_BODY - 1 - index / 4] |= a << (2 * (index % 4));
                let body_a = body_a;
                for b in 0..4 {
                    let mut body_b = [0u8; SIZE_BODY];
                    body_b[SIZE_BODY - 1 - index / 4] |= b << (2 * (index % 4));
                    let body_b = body_b;
                    let expected = distance_dibits(a, b);
                    assert_eq!(BodyDistance::<SIZE_BODY>::naive(&body_a, &body_b), expected);
                    assert_eq!(BodyDistance::<SIZE_BODY>::fast(&body_a, &body_b), expected);
                    assert_eq!(
                        BodyDistance::<SIZE_BODY>::pseudo_simd_32(&body_a, &body_b),
                        expected
                    );
                    assert_eq!(
                        BodyDistance::<SIZE_BODY>::pseudo_simd_64(&body_a, &body_b),
                        expected
                    );
                }
            }
        }
        // All dibit difference
        for a in 0..4 {
            let value_a = (0..4).fold(0u8, |x, _| (x << 2) | a);
            let body_a = [value_a; SIZE_BODY];
            for b in 0..4 {
                let value_b = (0..4).fold(0u8, |x, _| (x << 2) | b);
                let body_b = [value_b; SIZE_BODY];
                let expected = distance_dibits(a, b) * (SIZE_BODY * 4) as u32;
                assert_eq!(BodyDistance::<SIZE_BODY>::naive(&body_a, &body_b), expected);
                assert_eq!(BodyDistance::<SIZE_BODY>::fast(&body_a, &body_b), expected);
                assert_eq!(
                    BodyDistance::<SIZE_BODY>::pseudo_simd_32(&body_a, &body_b),
                    expected
                );
                assert_eq!(
                    BodyDistance::<SIZE_BODY>::pseudo_simd_64(&body_a, &body_b),
                    expected
                );
            }
        }
    }
    test::<BODY_SIZE_SHORT>();
    test::<BODY_SIZE_NORMAL>();
    test::<BODY_SIZE_LONG>();
}
