// SPDX-License-Identifier: Apache-2.0 OR MIT
// SPDX-FileCopyrightText: Copyright (C) 2024 Tsukasa OI <floss_ssdeep@irq.a4lg.com>.

#![cfg(all(test, feature = "tests-slow"))]

use rand::{RngCore, SeedableRng};
use rand_xoshiro::Xoshiro256PlusPlus;

macro_rules! fuzz_distance_template {
    {$($name:ident = ($method_to_test:ident, $size:literal, $seed:literal, $iter:expr);)*} => {
        $(
            #[test]
            fn $name() {
                let mut rng = Xoshiro256PlusPlus::seed_from_u64($seed);
                let mut body1 = [0; $size];
                let mut body2 = [0; $size];
                for _ in 0..$iter {
                    rng.fill_bytes(body1.as_mut_slice());
                    rng.fill_bytes(body2.as_mut_slice());
                    let expected_score = super::naive::distance(&body1, &body2);
                    assert_eq!(
                        super::pseudo_simd_32::$method_to_test(&body1, &body2),
                        expected_score,
                        "failed on body1={body1:?}, body2={body2:?}"
                    );
                    assert_eq!(
                        super::pseudo_simd_64::$method_to_test(&body1, &body2),
                        expected_score,
                        "failed on body1={body1:?}, body2={body2:?}"
                    );
                    assert_eq!(
                        super::$method_to_test(&body1, &body2),
                        expected_score,
                        "failed on body1={body1:?}, body2={body2:?}"
                    );
                }
            }
        )*
    }
}

#[cfg(all(miri, fast_tlsh_tests_reduce_on_miri))]
const ITER: usize = 1_000;
#[cfg(not(all(miri, fast_tlsh_tests_reduce_on_miri)))]
const ITER: usize = 1_000_000;

fuzz_distance_template! {
    fuzz_distance_12 = (distance_12, 12, 0x423aa9f2933a29c4, ITER);
    fuzz_distance_32 = (distance_32, 32, 0xf83c14a440b17eba, ITER);
    fuzz_distance_64 = (distance_64, 64, 0xa3cfdcac617a7155, ITER);
}
