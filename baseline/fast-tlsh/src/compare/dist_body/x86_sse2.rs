// SPDX-License-Identifier: Apache-2.0 OR MIT
// SPDX-FileCopyrightText: Copyright (C) 2024 Tsukasa OI <floss_ssdeep@irq.a4lg.com>.

//! SSE2 implementation (x86) of TLSH body comparison.
//!
//! This implementation handles a 128-bit integer as 64 2-bit integers.

#![cfg(all(
    feature = "simd-per-arch",
    feature = "opt-simd-body-comparison",
    any(target_arch = "x86", target_arch = "x86_64"),
    any(
        feature = "detect-features",
        all(
            not(target_feature = "avx2"),
            not(target_feature = "sse4.1"),
            target_feature = "sse2"
        )
    )
))]

#[cfg(target_arch = "x86")]
use core::arch::x86::*;
#[cfg(target_arch = "x86_64")]
use core::arch::x86_64::*;

static_assertions::const_assert_eq!(super::BODY_OUTLIER_VALUE, 6);

/// Computes the distance between two 128-bit vectors and return as
/// a packed `u16` array (8 elements).
#[allow(unsafe_code)]
#[cfg_attr(not(feature = "detect-features"), inline(always))]
#[cfg_attr(feature = "detect-features", target_feature(enable = "sse2"), inline)]
unsafe fn packed_distance_as_u16x8(x: __m128i, y: __m128i) -> __m128i {
    // Constants
    let mask_dibit_01 = _mm_set1_epi8(0b01_01_01_01i8);
    let mask_dibit_10 = _mm_set1_epi8(0b10_10_10_10u8 as i8);
    let mask_nibble_0011 = _mm_set1_epi8(0b0011_0011);
    let mask_byte_00001111 = _mm_set1_epi8(0b00001111);

    let z = _mm_xor_si128(x, y);

    // Step by Step evaluation (independent A and B are interleaved)
    let ta = _mm_and_si128(y, mask_dibit_01);
    let tb = _mm_and_si128(x, mask_dibit_01);
    let ta = _mm_or_si128(ta, _mm_slli_epi32::<1>(ta)); // * 3
    let tb = _mm_sub_epi32(mask_dibit_10, tb);
    let ta = _mm_xor_si128(ta, x);
    let tb = _mm_xor_si128(tb, x);
    let sa = _mm_and_si128(ta, z); // SUM 1 (2-bit sliced; 0..=3)
    let tb = _mm_and_si128(tb, z);
    let ta = _mm_srli_epi32::<2>(sa);
    let sa = _mm_and_si128(sa, mask_nibble_0011);
    let tb = _mm_srli_epi32::<1>(tb);
    let ta = _mm_and_si128(ta, mask_nibble_0011);
    let tb = _mm_or_si128(tb, _mm_slli_epi32::<1>(tb)); // * 3
    let sa = _mm_add_epi32(sa, ta); // SUM 1 (4-bit sliced; 0..=6)
    let sb = _mm_and_si128(tb, z); // SUM 2 (2-bit sliced; 0..=3)
    let tb = _mm_srli_epi32::<2>(sb);
    let sb = _mm_and_si128(sb, mask_nibble_0011);
    let tb = _mm_and_si128(tb, mask_nibble_0011);
    let sb = _mm_add_epi32(sb, tb); // SUM 2 (4-bit sliced; 0..=6)

    // Aggregation
    let s = _mm_add_epi32(sb, sa); // SUM (4-bit sliced; 0..=12)
    let t = _mm_srli_epi32::<4>(s);
    let s = _mm_and_si128(s, mask_byte_00001111);
    let t = _mm_and_si128(t, mask_byte_00001111);
    let s = _mm_add_epi32(s, t); // SUM (8-bit sliced; 0..=24)
    let t = _mm_slli_epi16::<8>(s);
    let s = _mm_srli_epi16::<8>(s);
    let t = _mm_srli_epi16::<8>(t);
    _mm_add_epi16(s, t) // SUM (16-bit sliced; 0..=48)
}

/// Computes the distance between two 32-byte TLSH bodies.
#[allow(unsafe_code)]
#[cfg_attr(not(feature = "detect-features"), inline(always))]
#[cfg_attr(feature = "detect-features", target_feature(enable = "sse2"), inline)]
pub unsafe fn distance_32(body1: &[u8; 32], body2: &[u8; 32]) -> u32 {
    let px = body1 as *const u8 as *const __m128i;
    let py = body2 as *const u8 as *const __m128i;

    // First half
    let x1 = _mm_loadu_si128(px);
    let y1 = _mm_loadu_si128(py);
    let s1 = packed_distance_as_u16x8(x1, y1); // SUM (16-bit sliced; 0..=48)

    // Second Half (just like the first half)
    let x2 = _mm_loadu_si128(px.add(1));
    let y2 = _mm_loadu_si128(py.add(1));
    let s2 = packed_distance_as_u16x8(x2, y2); // SUM (16-bit sliced; 0..=48)

    // Horizontal sum
    let s = _mm_add_epi16(s1, s2); // Both halfs SUM (16-bit sliced; 0..=96)
    let t = _mm_shuffle_epi32::<0b11_10_11_10>(s);
    let s = _mm_add_epi16(s, t); // Both halfs SUM (16-bit sliced; 0..=192 on lanes 0-3)
    let t = _mm_shuffle_epi32::<0b01_01_01_01>(s);
    let s = _mm_add_epi16(s, t); // Both halfs SUM (16-bit sliced; 0..=384 on lanes 0-1)
    let t = _mm_cvtsi128_si32(s) as u32;
    (t & 0xffff).wrapping_add(t.wrapping_shr(16))
}

/// Computes the distance between two 64-byte TLSH bodies.
#[allow(unsafe_code)]
#[cfg_attr(not(feature = "detect-features"), inline(always))]
#[cfg_attr(feature = "detect-features", target_feature(enable = "sse2"), inline)]
pub unsafe fn distance_64(body1: &[u8; 64], body2: &[u8; 64]) -> u32 {
    let px = body1 as *const u8 as *const __m128i;
    let py = body2 as *const u8 as *const __m128i;

    let mut s = _mm_set1_epi16(0); // SUM (16-bit sliced; 0..=192) after 4 loops
    for i in 0..4 {
        let x = _mm_loadu_si128(px.add(i));
        let y = _mm_loadu_si128(py.add(i));
        s = _mm_add_epi16(s, packed_distance_as_u16x8(x, y)); // SUM (16-bit sliced; 0..=48)
    }

    // Horizontal sum
    let t = _mm_shuffle_epi32::<0b11_10_11_10>(s);
    let s = _mm_add_epi16(s, t); // Both halfs SUM (16-bit sliced; 0..=384 on lanes 0-3)
    let t = _mm_shuffle_epi32::<0b01_01_01_01>(s);
    let s = _mm_add_epi16(s, t); // Both halfs SUM (16-bit sliced; 0..=768 on lanes 0-1)
    let t = _mm_cvtsi128_si32(s) as u32;
    (t & 0xffff).wrapping_add(t.wrapping_shr(16))
}
