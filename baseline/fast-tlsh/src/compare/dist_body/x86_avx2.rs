// SPDX-License-Identifier: Apache-2.0 OR MIT
// SPDX-FileCopyrightText: Copyright (C) 2024 Tsukasa OI <floss_ssdeep@irq.a4lg.com>.

//! AVX2 implementation (x86) of TLSH body comparison.
//!
//! This implementation handles a 256-bit integer as 128 2-bit integers.

#![cfg(all(
    feature = "simd-per-arch",
    feature = "opt-simd-body-comparison",
    any(target_arch = "x86", target_arch = "x86_64"),
    any(feature = "detect-features", target_feature = "avx2")
))]

#[cfg(target_arch = "x86")]
use core::arch::x86::*;
#[cfg(target_arch = "x86_64")]
use core::arch::x86_64::*;

static_assertions::const_assert_eq!(super::BODY_OUTLIER_VALUE, 6);

/// Computes the distance between two 256-bit vectors and return as
/// a packed `u32` array (8 elements).
#[allow(unsafe_code)]
#[cfg_attr(not(feature = "detect-features"), inline(always))]
#[cfg_attr(feature = "detect-features", target_feature(enable = "avx2"), inline)]
unsafe fn packed_distance_as_u32x8(x: __m256i, y: __m256i) -> __m256i {
    // Constants
    let mask_dibit_01 = _mm256_set1_epi8(0b01_01_01_01i8);
    let mask_dibit_10 = _mm256_set1_epi8(0b10_10_10_10u8 as i8);
    let mask_nibble_0011 = _mm256_set1_epi8(0b0011_0011);
    let mask_byte_00001111 = _mm256_set1_epi8(0b00001111);
    let value_dword_0x01010101 = _mm256_set1_epi32(0x01010101);

    let z = _mm256_xor_si256(x, y);

    // Step by Step evaluation (independent A and B are interleaved)
    let ta = _mm256_and_si256(y, mask_dibit_01);
    let tb = _mm256_and_si256(x, mask_dibit_01);
    let ta = _mm256_or_si256(ta, _mm256_slli_epi32::<1>(ta)); // * 3
    let tb = _mm256_sub_epi32(mask_dibit_10, tb);
    let ta = _mm256_xor_si256(ta, x);
    let tb = _mm256_xor_si256(tb, x);
    let sa = _mm256_and_si256(ta, z); // SUM 1 (2-bit sliced; 0..=3)
    let tb = _mm256_and_si256(tb, z);
    let ta = _mm256_srli_epi32::<2>(sa);
    let sa = _mm256_and_si256(sa, mask_nibble_0011);
    let tb = _mm256_srli_epi32::<1>(tb);
    let ta = _mm256_and_si256(ta, mask_nibble_0011);
    let tb = _mm256_or_si256(tb, _mm256_slli_epi32::<1>(tb)); // * 3
    let sa = _mm256_add_epi32(sa, ta); // SUM 1 (4-bit sliced; 0..=6)
    let sb = _mm256_and_si256(tb, z); // SUM 2 (2-bit sliced; 0..=3)
    let tb = _mm256_srli_epi32::<2>(sb);
    let sb = _mm256_and_si256(sb, mask_nibble_0011);
    let tb = _mm256_and_si256(tb, mask_nibble_0011);
    let sb = _mm256_add_epi32(sb, tb); // SUM 2 (4-bit sliced; 0..=6)

    // Aggregation
    let s = _mm256_add_epi32(sb, sa); // SUM (4-bit sliced; 0..=12)
    let t = _mm256_srli_epi32::<4>(s);
    let s = _mm256_and_si256(s, mask_byte_00001111);
    let t = _mm256_and_si256(t, mask_byte_00001111);
    let s = _mm256_add_epi32(s, t); // SUM (8-bit sliced; 0..=24)
    let s = _mm256_mullo_epi32(s, value_dword_0x01010101);
    _mm256_srli_epi32::<24>(s) // SUM (32-bit sliced; 0..=96)
}

/// Computes the distance between two 32-byte TLSH bodies.
#[allow(unsafe_code)]
#[cfg_attr(not(feature = "detect-features"), inline(always))]
#[cfg_attr(feature = "detect-features", target_feature(enable = "avx2"), inline)]
pub unsafe fn distance_32(body1: &[u8; 32], body2: &[u8; 32]) -> u32 {
    let x = _mm256_loadu_si256(body1 as *const u8 as *const __m256i);
    let y = _mm256_loadu_si256(body2 as *const u8 as *const __m256i);
    let s = packed_distance_as_u32x8(x, y);

    // Horizontal sum
    let t = _mm256_shuffle_epi32::<0b11_10_11_10>(s);
    let s = _mm256_add_epi32(s, t); // Both halfs SUM (32-bit sliced; 0..=192 on lanes 0,1,4,5)
    let t = _mm256_shuffle_epi32::<0b01_01_01_01>(s);
    let s = _mm256_add_epi32(s, t); // Both halfs SUM (32-bit sliced; 0..=384 on lanes 0,4)
    let s0 = _mm256_extract_epi32::<0>(s) as u32;
    let s1 = _mm256_extract_epi32::<4>(s) as u32;
    s0 + s1
}

/// Computes the distance between two 64-byte TLSH bodies.
#[allow(unsafe_code)]
#[cfg_attr(not(feature = "detect-features"), inline(always))]
#[cfg_attr(feature = "detect-features", target_feature(enable = "avx2"), inline)]
pub unsafe fn distance_64(body1: &[u8; 64], body2: &[u8; 64]) -> u32 {
    let px = body1 as *const u8 as *const __m256i;
    let py = body2 as *const u8 as *const __m256i;

    let x = _mm256_loadu_si256(px);
    let y = _mm256_loadu_si256(py);
    let s = packed_distance_as_u32x8(x, y);
    // Horizontal sum
    let t = _mm256_shuffle_epi32::<0b11_10_11_10>(s);
    let s = _mm256_add_epi32(s, t); // Both halfs SUM (32-bit sliced; 0..=192 on lanes 0,1,4,5)
    let t = _mm256_shuffle_epi32::<0b01_01_01_01>(s);
    let s = _mm256_add_epi32(s, t); // Both halfs SUM (32-bit sliced; 0..=384 on lanes 0,4)
    let s0 = _mm256_extract_epi32::<0>(s) as u32;
    let s1 = _mm256_extract_epi32::<4>(s) as u32;
    let v0 = s0 + s1;

    let x = _mm256_loadu_si256(px.add(1));
    let y = _mm256_loadu_si256(py.add(1));
    let s = packed_distance_as_u32x8(x, y);
    // Horizontal sum
    let t = _mm256_shuffle_epi32::<0b11_10_11_10>(s);
    let s = _mm256_add_epi32(s, t); // Both halfs SUM (32-bit sliced; 0..=192 on lanes 0,1,4,5)
    let t = _mm256_shuffle_epi32::<0b01_01_01_01>(s);
    let s = _mm256_add_epi32(s, t); // Both halfs SUM (32-bit sliced; 0..=384 on lanes 0,4)
    let s0 = _mm256_extract_epi32::<0>(s) as u32;
    let s1 = _mm256_extract_epi32::<4>(s) as u32;
    let v1 = s0 + s1;

    v0 + v1
}
