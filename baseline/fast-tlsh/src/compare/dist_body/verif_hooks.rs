// Verification hooks (compiled only with `--cfg fast_tlsh_verif`).
//! Direct access to each compiled body distance backend.

/// 12-byte bodies: only the pseudo-SIMD implementations exist.
pub fn distance_12_by(backend: &str, a: &[u8; 12], b: &[u8; 12]) -> Option<u32> {
    match backend {
        "dispatch" => Some(super::distance_12(a, b)),
        "pseudo32" => Some(super::pseudo_simd_32::distance_12(a, b)),
        "pseudo64" => Some(super::pseudo_simd_64::distance_12(a, b)),
        _ => None,
    }
}

macro_rules! by_name {
    ($($fname:ident = ($name:ident, $size:literal);)*) => {
        $(
            /// Runs the named backend; None if it is not compiled in / not supported by the CPU.
            pub fn $fname(backend: &str, a: &[u8; $size], b: &[u8; $size]) -> Option<u32> {
                match backend {
                    "dispatch" => Some(super::$name(a, b)),
                    "pseudo32" => Some(super::pseudo_simd_32::$name(a, b)),
                    "pseudo64" => Some(super::pseudo_simd_64::$name(a, b)),
                    #[cfg(all(
                        feature = "simd-per-arch",
                        feature = "opt-simd-body-comparison",
                        feature = "detect-features",
                        any(target_arch = "x86", target_arch = "x86_64")
                    ))]
                    "sse2" => {
                        if !std::arch::is_x86_feature_detected!("sse2") {
                            return None;
                        }
                        #[allow(unsafe_code)]
                        Some(unsafe { super::x86_sse2::$name(a, b) })
                    }
                    #[cfg(all(
                        feature = "simd-per-arch",
                        feature = "opt-simd-body-comparison",
                        feature = "detect-features",
                        any(target_arch = "x86", target_arch = "x86_64")
                    ))]
                    "sse41" => {
                        if !std::arch::is_x86_feature_detected!("sse4.1") {
                            return None;
                        }
                        #[allow(unsafe_code)]
                        Some(unsafe { super::x86_sse4_1::$name(a, b) })
                    }
                    #[cfg(all(
                        feature = "simd-per-arch",
                        feature = "opt-simd-body-comparison",
                        feature = "detect-features",
                        any(target_arch = "x86", target_arch = "x86_64")
                    ))]
                    "avx2" => {
                        if !std::arch::is_x86_feature_detected!("avx2") {
                            return None;
                        }
                        #[allow(unsafe_code)]
                        Some(unsafe { super::x86_avx2::$name(a, b) })
                    }
                    _ => None,
                }
            }
        )*
    };
}

by_name! {
    distance_32_by = (distance_32, 32);
    distance_64_by = (distance_64, 64);
}

/// Dumps the compiled constants of this module.
pub fn dump(f: &mut dyn FnMut(&str, &[u64])) {
    f("body_outlier_value", &[super::BODY_OUTLIER_VALUE as u64]);
    f(
        "body_max_distance",
        &[
            super::MAX_DISTANCE_SHORT as u64,
            super::MAX_DISTANCE_NORMAL as u64,
            super::MAX_DISTANCE_LONG as u64,
        ],
    );
}
