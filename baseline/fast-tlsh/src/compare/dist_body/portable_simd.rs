// SPDX-License-Identifier: Apache-2.0 OR MIT
// SPDX-FileCopyrightText: Copyright (C) 2024 Tsukasa OI <floss_ssdeep@irq.a4lg.com>.

//! Portable SIMD implementation (Nightly Rust) of TLSH body comparison.
//!
//! This implementation handles each body as a single SIMD variable
//! (either 256-bits or 512-bits).

#![cfg(all(feature = "simd-portable", feature = "opt-simd-body-comparison"))]

use core::simd::num::SimdUint;
use core::simd::{LaneCount, Simd, SupportedLaneCount, ToBytes};

static_assertions::const_assert_eq!(super::BODY_OUTLIER_VALUE, 6);

/// Computes the distance between two `N_8`-byte TLSH bodies.
///
/// It uses [`u32`] SIMD computation for the final sum and only supports where
/// `N_8 % 4 == 0` (and the lane count `N_8` is supported by Rust).
#[inline(always)]
fn distance<const N_8: usize, const N_32: usize>(body1: &[u8; N_8], body2: &[u8; N_8]) -> u32
where
    LaneCount<N_8>: SupportedLaneCount,
    LaneCount<N_32>: SupportedLaneCount,
    Simd<u32, N_32>: ToBytes<Bytes = Simd<u8, N_8>>,
{
    let x = Simd::<u32, N_32>::from_ne_bytes(Simd::<u8, N_8>::from_array(*body1));
    let y = Simd::<u32, N_32>::from_ne_bytes(Simd::<u8, N_8>::from_array(*body2));
    let z = x ^ y;

    // Constants
    let mask_dibit_01 = Simd::<u32, N_32>::splat(0x55555555);
    let mask_dibit_10 = Simd::<u32, N_32>::splat(0xaaaaaaaa);
    let mask_nibble_0011 = Simd::<u32, N_32>::splat(0x33333333);
    let mask_byte_00001111 = Simd::<u32, N_32>::splat(0x0f0f0f0f);
    let value_dword_0x01010101 = Simd::<u32, N_32>::splat(0x01010101);

    // Step by Step evaluation (independent A and B are interleaved)
    let ta = y & mask_dibit_01;
    let tb = x & mask_dibit_01;
    let ta = ta | (ta << 1); // * 3
    let tb = mask_dibit_10 - tb;
    let ta = ta ^ x;
    let tb = tb ^ x;
    let sa = ta & z; // SUM 1 (2-bit sliced; 0..=3)
    let tb = tb & z;
    let ta = sa >> 2;
    let sa = sa & mask_nibble_0011;
    let tb = tb >> 1;
    let ta = ta & mask_nibble_0011;
    let tb = tb | (tb << 1); // * 3
    let sa = sa + ta; // SUM 1 (4-bit sliced; 0..=6)
    let sb = tb & z; // SUM 2 (2-bit sliced; 0..=3)
    let tb = sb >> 2;
    let sb = sb & mask_nibble_0011;
    let tb = tb & mask_nibble_0011;
    let sb = sb + tb; // SUM 2 (4-bit sliced; 0..=6)

    // Aggregation
    let s = sb + sa; // SUM (4-bit sliced; 0..=12)
    let t = s >> 4;
    let s = s & mask_byte_00001111;
    let t = t & mask_byte_00001111;
    let s = s + t; // SUM (8-bit sliced; 0..=24)
    let s = (s * value_dword_0x01010101) >> 24; // SUM (32-bit sliced; 0..=96)
    s.reduce_sum()
}

/// Computes the distance between two 32-byte TLSH bodies.
#[inline]
pub fn distance_32(body1: &[u8; 32], body2: &[u8; 32]) -> u32 {
    distance::<32, 8>(body1, body2)
}

/// Computes the distance between two 64-byte TLSH bodies.
#[inline]
pub fn distance_64(body1: &[u8; 64], body2: &[u8; 64]) -> u32 {
    distance::<64, 16>(body1, body2)
}
