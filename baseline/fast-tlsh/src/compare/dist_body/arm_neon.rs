// SPDX-License-Identifier: Apache-2.0 OR MIT
// SPDX-FileCopyrightText: Copyright (C) 2024 Tsukasa OI <floss_ssdeep@irq.a4lg.com>.

//! NEON/ASIMD implementation (Arm) of TLSH body comparison.
//!
//! This implementation handles a 128-bit integer as 64 2-bit integers.
//!
//! On horizontal addition, an unique NEON/ASIMD feature: 64/128-bit union
//! (registers D0–D31 and Q0–Q15 are mapped to the same register space)
//! is utilized.

#![cfg(all(
    feature = "simd-per-arch",
    feature = "opt-simd-body-comparison",
    any(
        all(target_arch = "aarch64", any(doc, target_feature = "neon")),
        all(
            target_arch = "arm",
            feature = "unstable",
            any(
                doc,
                all(
                    target_feature = "v7",
                    any(feature = "detect-features", target_feature = "neon")
                )
            )
        )
    )
))]

#[cfg(target_arch = "aarch64")]
use core::arch::aarch64::*;
#[cfg(all(target_arch = "arm", feature = "unstable"))]
use core::arch::arm::*;

static_assertions::const_assert_eq!(super::BODY_OUTLIER_VALUE, 6);

/// Computes the distance between two 128-bit vectors and return as
/// a packed `u16` array (8 elements).
#[allow(unsafe_code)]
#[cfg_attr(
    not(all(
        target_arch = "arm",
        feature = "detect-features",
        feature = "unstable",
        target_feature = "v7"
    )),
    inline(always)
)]
#[cfg_attr(
    all(
        target_arch = "arm",
        feature = "detect-features",
        feature = "unstable",
        target_feature = "v7"
    ),
    target_feature(enable = "neon"),
    inline
)]
unsafe fn packed_distance_as_u16x8(x: uint8x16_t, y: uint8x16_t) -> uint16x8_t {
    // Constants
    let mask_dibit_01 = vreinterpretq_u32_u8(vdupq_n_u8(0b01_01_01_01));
    let mask_dibit_10 = vreinterpretq_u32_u8(vdupq_n_u8(0b10_10_10_10));
    let mask_nibble_0011 = vreinterpretq_u32_u8(vdupq_n_u8(0b0011_0011));
    let mask_byte_00001111 = vreinterpretq_u32_u8(vdupq_n_u8(0b00001111));

    let x = vreinterpretq_u32_u8(x);
    let y = vreinterpretq_u32_u8(y);
    let z = veorq_u32(x, y);

    // Step by Step evaluation (independent A and B are interleaved)
    let ta = vandq_u32(y, mask_dibit_01);
    let tb = vandq_u32(x, mask_dibit_01);
    let ta = vorrq_u32(ta, vshlq_n_u32::<1>(ta)); // * 3
    let tb = vsubq_u32(mask_dibit_10, tb);
    let ta = veorq_u32(ta, x);
    let tb = veorq_u32(tb, x);
    let sa = vandq_u32(ta, z); // SUM 1 (2-bit sliced; 0..=3)
    let tb = vandq_u32(tb, z);
    let ta = vshrq_n_u32::<2>(sa);
    let sa = vandq_u32(sa, mask_nibble_0011);
    let tb = vshrq_n_u32::<1>(tb);
    let ta = vandq_u32(ta, mask_nibble_0011);
    let tb = vorrq_u32(tb, vshlq_n_u32::<1>(tb)); // * 3
    let sa = vaddq_u32(sa, ta); // SUM 1 (4-bit sliced; 0..=6)
    let sb = vandq_u32(tb, z); // SUM 2 (2-bit sliced; 0..=3)
    let tb = vshrq_n_u32::<2>(sb);
    let sb = vandq_u32(sb, mask_nibble_0011);
    let tb = vandq_u32(tb, mask_nibble_0011);
    let sb = vaddq_u32(sb, tb); // SUM 2 (4-bit sliced; 0..=6)

    // Aggregation
    let s = vaddq_u32(sb, sa); // SUM (4-bit sliced; 0..=12)
    let t = vshrq_n_u32::<4>(s);
    let s = vandq_u32(s, mask_byte_00001111);
    let t = vandq_u32(t, mask_byte_00001111);
    let s = vaddq_u32(s, t); // SUM (8-bit sliced; 0..=24)
    vpaddlq_u8(vreinterpretq_u8_u32(s))
}

/// Computes the distance between two 32-byte TLSH bodies.
#[allow(unsafe_code)]
#[cfg_attr(
    not(all(
        target_arch = "arm",
        feature = "detect-features",
        feature = "unstable",
        target_feature = "v7"
    )),
    inline(always)
)]
#[cfg_attr(
    all(
        target_arch = "arm",
        feature = "detect-features",
        feature = "unstable",
        target_feature = "v7"
    ),
    target_feature(enable = "neon"),
    inline
)]
pub unsafe fn distance_32(body1: &[u8; 32], body2: &[u8; 32]) -> u32 {
    let px = body1 as *const u8;
    let py = body2 as *const u8;

    // First and second halfs
    let (x, y) = (vld1q_u8(px), vld1q_u8(py));
    let s1 = packed_distance_as_u16x8(x, y); // SUM (16-bit sliced; 0..=48)
    let (x, y) = (vld1q_u8(px.add(16)), vld1q_u8(py.add(16)));
    let s2 = packed_distance_as_u16x8(x, y); // SUM (16-bit sliced; 0..=48)

    // Horizontal sum
    let s = vaddq_u16(s1, s2); // Both halfs SUM (16-bit sliced; 0..=96)
    let t = vpaddlq_u16(s); // Both halfs SUM (32-bit sliced; 0..=192)
    let s = vget_high_u32(t);
    let t = vget_low_u32(t);
    let s = vadd_u32(s, t); // Both halfs SUM (32-bit sliced+reduced; 0..=384)
    vget_lane_u32::<0>(s).wrapping_add(vget_lane_u32::<1>(s))
}

/// Computes the distance between two 64-byte TLSH bodies.
#[allow(unsafe_code)]
#[cfg_attr(
    not(all(
        target_arch = "arm",
        feature = "detect-features",
        feature = "unstable",
        target_feature = "v7"
    )),
    inline(always)
)]
#[cfg_attr(
    all(
        target_arch = "arm",
        feature = "detect-features",
        feature = "unstable",
        target_feature = "v7"
    ),
    target_feature(enable = "neon"),
    inline
)]
pub unsafe fn distance_64(body1: &[u8; 64], body2: &[u8; 64]) -> u32 {
    let mut px = body1 as *const u8;
    let mut py = body2 as *const u8;

    // First and second halfs
    let mut s = vdupq_n_u16(0);
    for _ in 0..4 {
        let (x, y) = (vld1q_u8(px), vld1q_u8(py));
        // SUM (16-bit sliced; 0..=48) for each loop
        s = vaddq_u16(s, packed_distance_as_u16x8(x, y));
        (px, py) = (px.add(16), py.add(16));
    }

    // Horizontal sum
    let s = vpaddlq_u16(s); // Both halfs SUM (32-bit sliced; 0..=192)
    let t = vget_high_u32(s);
    let s = vget_low_u32(s);
    let s = vadd_u32(s, t); // Both halfs SUM (32-bit sliced+reduced; 0..=768)
    vget_lane_u32::<0>(s).wrapping_add(vget_lane_u32::<1>(s))
}
