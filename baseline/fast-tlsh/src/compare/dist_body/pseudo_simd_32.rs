// SPDX-License-Identifier: Apache-2.0 OR MIT
// SPDX-FileCopyrightText: Copyright (C) 2024 Tsukasa OI <floss_ssdeep@irq.a4lg.com>.

//! 32-bit Pseudo-SIMD implementation of TLSH body comparison.
//!
//! This implementation handles a 32-bit integer as 16 2-bit integers.

use core::num::Wrapping;

static_assertions::const_assert_eq!(super::BODY_OUTLIER_VALUE, 6);

/// Computes the distance between two 32-bit values (subset of TLSH bodies).
#[inline(always)]
pub(crate) fn sub_distance(x: u32, y: u32) -> u32 {
    let x = Wrapping(x);
    let y = Wrapping(y);

    // Constants
    let mask_dibit_01 = Wrapping(0x5555_5555u32);
    let mask_dibit_10 = Wrapping(0xaaaa_aaaau32);
    let mask_nibble_0011 = Wrapping(0x3333_3333u32);
    let mask_byte_00001111 = Wrapping(0x0f0f_0f0fu32);

    let z = x ^ y;

    // Step by Step evaluation
    // Independent calculation of A and B are intentionally interleaved
    // to lower dependency to the optimizer.
    let ta = y & mask_dibit_01;
    let tb = x & mask_dibit_01;
    let ta = (ta << 1) + ta; // * 3 (leave possibility of arithmetic optimization)
    let tb = mask_dibit_10 - tb;
    let ta = ta ^ x;
    let tb = tb ^ x;
    let sa = ta & z; // SUM 1 (2-bit sliced; 0..=3)
    let tb = tb & z;
    let ta = sa >> 2;
    let sa = sa & mask_nibble_0011;
    let tb = tb >> 1;
    let ta = ta & mask_nibble_0011;
    let tb = (tb << 1) + tb; // * 3 (leave possibility of arithmetic optimization)
    let sa = sa + ta; // SUM 1 (4-bit sliced; 0..=6)
    let sb = tb & z; // SUM 2 (2-bit sliced; 0..=3)
    let tb = sb >> 2;
    let sb = sb & mask_nibble_0011;
    let tb = tb & mask_nibble_0011;
    let sb = sb + tb; // SUM 2 (4-bit sliced; 0..=6)

    // Aggregation and Horizontal sum
    let s = sa + sb; // SUM (4-bit sliced; 0..=12)
    let t = s >> 4;
    let s = s & mask_byte_00001111;
    let t = t & mask_byte_00001111;
    let s = s + t; // SUM (8-bit sliced; 0..=24)
    ((s * Wrapping(0x01010101)) >> 24).0 // SUM (0..=96)
}

/// Generates distance functions like [`distance_32()`].
macro_rules! distance_func_template {
    {$($name:ident = $size:literal;)*} => {
        $(
            #[doc = concat!("Computes the distance between two ", stringify!($size), "-byte TLSH bodies.")]
            #[inline]
            pub fn $name(body1: &[u8; $size], body2: &[u8; $size]) -> u32 {
                let mut total = 0;
                for (x, y) in body1
                    .as_slice()
                    .chunks_exact(4)
                    .zip(body2.as_slice().chunks_exact(4))
                {
                    let x = u32::from_ne_bytes(x.try_into().unwrap());
                    let y = u32::from_ne_bytes(y.try_into().unwrap());
                    total += sub_distance(x, y);
                }
                total
            }
        )*
    }
}

distance_func_template! {
    distance_12 = 12;
    distance_32 = 32;
    distance_64 = 64;
}
