// SPDX-License-Identifier: Apache-2.0 OR MIT
// SPDX-FileCopyrightText: Copyright (C) 2024 Tsukasa OI <floss_ssdeep@irq.a4lg.com>.

//! Pearson hashing and the TLSH's B (bucket) mapping.
//!
//! # Summary
//!
//! See [Pearson, 1990 (doi:10.1145/78973.78978)](https://doi.org/10.1145%2F78973.78978)
//! and the [Wikipedia article](https://en.wikipedia.org/wiki/Pearson_hashing)
//! for details.
//!
//! # On TLSH
//!
//! TLSH's official implementation often use 4-byte Peason hash updates.
//! For instance, we use following 4 bytes to select the bucket to update:
//!
//! 1.  A prime (constant)
//! 2.  The latest byte
//! 3.  An old byte in the sliding window
//! 4.  (likewise)
//!
//! And on short fuzzy hashes, it uses the special transformation (that requires
//! a special substitution table [for finalization](final_48())).
//!
//! We don't implement "manual constant folding on the first byte" optimization
//! as seen in the `fast_b_mapping` function in the original implementation
//! (also see `b_mapping` to see the difference) because LLVM is smart enough
//! to perform the equivalent.
//!
//! Consider following snippets are equivalent except in short fuzzy hashes:
//!
//! ```text
//! // TLSH (unoptimized virtual example)
//! b_mapping(2,  a4, a3, a2)
//! // TLSH (manually optimized; excerpt from tlsh_impl.cpp)
//! // 49 is the result after processing the first byte (a prime): 2.
//! fast_b_mapping(49,  a4, a3, a2)
//! // fast-tlsh (this crate; internal)
//! final_256(update_double(init(0x02), a4, a3), a2)
//! ```
//!
//! On short fuzzy hashes:
//!
//! ```text
//! // fast-tlsh (this crate; internal)
//! final_48(update_double(init(0x02), a4, a3), a2)
//! ```

/// The initial state of Pearson hashing.
pub const INITIAL_STATE: u8 = 0;

/// The substitution table for Pearson hashing.
pub const SUBST_TABLE: [u8; 256] = [
    0x01, 0x57, 0x31, 0x0c, 0xb0, 0xb2, 0x66, 0xa6, 0x79, 0xc1, 0x06, 0x54, 0xf9, 0xe6, 0x2c, 0xa3,
    0x0e, 0xc5, 0xd5, 0xb5, 0xa1, 0x55, 0xda, 0x50, 0x40, 0xef, 0x18, 0xe2, 0xec, 0x8e, 0x26, 0xc8,
    0x6e, 0xb1, 0x68, 0x67, 0x8d, 0xfd, 0xff, 0x32, 0x4d, 0x65, 0x51, 0x12, 0x2d, 0x60, 0x1f, 0xde,
    0x19, 0x6b, 0xbe, 0x46, 0x56, 0xed, 0xf0, 0x22, 0x48, 0xf2, 0x14, 0xd6, 0xf4, 0xe3, 0x95, 0xeb,
    0x61, 0xea, 0x39, 0x16, 0x3c, 0xfa, 0x52, 0xaf, 0xd0, 0x05, 0x7f, 0xc7, 0x6f, 0x3e, 0x87, 0xf8,
    0xae, 0xa9, 0xd3, 0x3a, 0x42, 0x9a, 0x6a, 0xc3, 0xf5, 0xab, 0x11, 0xbb, 0xb6, 0xb3, 0x00, 0xf3,
    0x84, 0x38, 0x94, 0x4b, 0x80, 0x85, 0x9e, 0x64, 0x82, 0x7e, 0x5b, 0x0d, 0x99, 0xf6, 0xd8, 0xdb,
    0x77, 0x44, 0xdf, 0x4e, 0x53, 0x58, 0xc9, 0x63, 0x7a, 0x0b, 0x5c, 0x20, 0x88, 0x72, 0x34, 0x0a,
    0x8a, 0x1e, 0x30, 0xb7, 0x9c, 0x23, 0x3d, 0x1a, 0x8f, 0x4a, 0xfb, 0x5e, 0x81, 0xa2, 0x3f, 0x98,
    0xaa, 0x07, 0x73, 0xa7, 0xf1, 0xce, 0x03, 0x96, 0x37, 0x3b, 0x97, 0xdc, 0x5a, 0x35, 0x17, 0x83,
    0x7d, 0xad, 0x0f, 0xee, 0x4f, 0x5f, 0x59, 0x10, 0x69, 0x89, 0xe1, 0xe0, 0xd9, 0xa0, 0x25, 0x7b,
    0x76, 0x49, 0x02, 0x9d, 0x2e, 0x74, 0x09, 0x91, 0x86, 0xe4, 0xcf, 0xd4, 0xca, 0xd7, 0x45, 0xe5,
    0x1b, 0xbc, 0x43, 0x7c, 0xa8, 0xfc, 0x2a, 0x04, 0x1d, 0x6c, 0x15, 0xf7, 0x13, 0xcd, 0x27, 0xcb,
    0xe9, 0x28, 0xba, 0x93, 0xc6, 0xc0, 0x9b, 0x21, 0xa4, 0xbf, 0x62, 0xcc, 0xa5, 0xb4, 0x75, 0x4c,
    0x8c, 0x24, 0xd2, 0xac, 0x29, 0x36, 0x9f, 0x08, 0xb9, 0xe8, 0x71, 0xc4, 0xe7, 0x2f, 0x92, 0x78,
    0x33, 0x41, 0x1c, 0x90, 0xfe, 0xdd, 0x5d, 0xbd, 0xc2, 0x8b, 0x70, 0x2b, 0x47, 0x6d, 0xb8, 0xd1,
];

/// The substitution table for 2 bytes of Pearson hashing.
///
/// Note that the first index denotes the byte 2 (not 1) to maximize
/// address calculation efficiency.
#[cfg(any(doc, feature = "opt-pearson-table-double"))]
static SUBST_TABLE_DOUBLE: [[u8; 256]; 256] = {
    let mut array = [[0; 256]; 256];
    let mut b2 = 0;
    while b2 < 256 {
        let mut b1 = 0;
        while b1 < 256 {
            array[b2][b1] = SUBST_TABLE[SUBST_TABLE[b1] as usize ^ b2];
            b1 += 1;
        }
        b2 += 1;
    }
    array
};

/// The special substitution table for 48-bucket variant of TLSH.
///
/// For each [`SUBST_TABLE`] value (`x`), this is:
///
/// *   `x % 48` (when `x < 240`)
/// *   `48`     (otherwise)
///
/// It avoids bias on the bucket distribution (because 256 values makes an
/// uneven distribution (`256 % 48 != 0`), they only use first
/// `256 / 48 * 48 == 240` values for bucket counting).
///
/// Instead, it increases the bias on the checksum (because values other than
/// `48` will get intermediate frequency of `5/256` but `48` gets `16/256`;
/// `256 / 48 == 5`, `256 - 256 / 48 * 48 == 16`).
const SUBST_TABLE_48: [u8; 256] = {
    let mut array = SUBST_TABLE;
    let mut i = 0;
    while i < 256 {
        if array[i] >= 240 {
            array[i] = 48;
        } else {
            array[i] %= 48;
        }
        i += 1;
    }
    array
};

/// Process one byte (as a initialization) using Pearson hashing.
#[inline(always)]
pub const fn init(value: u8) -> u8 {
    update(INITIAL_STATE, value)
}

/// Process one byte using Pearson hashing.
#[inline(always)]
pub const fn update(state: u8, value: u8) -> u8 {
    SUBST_TABLE[(state ^ value) as usize]
}

/// Process two bytes using Pearson hashing.
///
/// This function updates the Pearson hashing state with two bytes:
/// `b1` and `b2`.
///
/// This is equivalent to two calls to [`update()`] but may be optimized
/// for faster processing.
#[inline(always)]
pub fn update_double(state: u8, b1: u8, b2: u8) -> u8 {
    cfg_if::cfg_if! {
        if #[cfg(feature = "opt-pearson-table-double")] {
            SUBST_TABLE_DOUBLE[b2 as usize][(state ^ b1) as usize]
        }
        else {
            update(update(state, b1), b2)
        }
    }
}

/// Process one byte using Pearson hashing for 256-bucket finalization.
///
/// On the 256-bucket variant, this is the same as regular [`update()`].
#[inline(always)]
pub const fn final_256(state: u8, value: u8) -> u8 {
    update(state, value)
}

/// Process one byte using Pearson hashing for 48-bucket finalization.
///
/// Assuming that the return value of [`final_256()`] is `x`,
/// the return value of this function is as follows:
///
/// *   `x % 48` (when `x < 240`)
/// *   `48`     (otherwise)
///
/// It avoids bias on the bucket distribution (because 256 values makes an
/// uneven distribution (`256 % 48 != 0`), they only use first
/// `256 / 48 * 48 == 240` values for bucket counting).
///
/// Instead, it increases the bias on the checksum (because values other than
/// `48` will get intermediate frequency of `5/256` but `48` gets `16/256`;
/// `256 / 48 == 5`, `256 - 256 / 48 * 48 == 16`).
#[inline(always)]
pub const fn final_48(state: u8, value: u8) -> u8 {
    SUBST_TABLE_48[(state ^ value) as usize]
}

/// TLSH's B (bucket) mapping on the 256-bucket variant.
///
/// On TLSH, the first byte `b0` is a constant (a prime when updating the
/// internal bucket and `0` when updating the internal checksum).
///
/// On the 256-bucket variant, this is the same as updating 4 bytes: `b0`
/// through `b3` (in that order) from the initial state.
#[inline(always)]
pub fn tlsh_b_mapping_256(b0: u8, b1: u8, b2: u8, b3: u8) -> u8 {
    final_256(update_double(init(b0), b1, b2), b3)
}

/// TLSH's B (bucket) mapping on the 48-bucket variant.
///
/// On TLSH, the first byte `b0` is a constant (a prime when updating the
/// internal bucket and `0` when updating the internal checksum).
///
/// Assuming that the return value of [`tlsh_b_mapping_256()`] is `x`,
/// the return value of this function is as follows:
///
/// *   `x % 48` (when `x < 240`)
/// *   `48`     (otherwise)
///
/// It avoids bias on the bucket distribution (because 256 values makes an
/// uneven distribution (`256 % 48 != 0`), they only use first
/// `256 / 48 * 48 == 240` values for bucket counting).
///
/// Instead, it increases the bias on the checksum (because values other than
/// `48` will get intermediate frequency of `5/256` but `48` gets `16/256`;
/// `256 / 48 == 5`, `256 - 256 / 48 * 48 == 16`).
#[inline(always)]
pub fn tlsh_b_mapping_48(b0: u8, b1: u8, b2: u8, b3: u8) -> u8 {
    final_48(update_double(init(b0), b1, b2), b3)
}

mod tests;
