// SPDX-License-Identifier: Apache-2.0 OR MIT
// SPDX-FileCopyrightText: Copyright (C) 2024 Tsukasa OI <floss_ssdeep@irq.a4lg.com>.

//! Tests: [`crate::parse::hex_str`].

#![cfg(test)]

use super::{
    decode_1, decode_array, decode_digit, decode_rev_1, decode_rev_array, encode_rev_1,
    encode_rev_array, HEX_UPPER_NIBBLE_TABLE,
};

#[cfg(not(feature = "opt-low-memory-hex-str-decode-half-table"))]
use super::HEX_REV_TABLE_HI;
#[cfg(not(feature = "opt-low-memory-hex-str-decode-min-table"))]
use super::{HexDecodeTableType, HEX_INVALID, HEX_REV_TABLE_LO};

use std::collections::hash_map::Entry;
use std::collections::HashMap;

use crate::parse::bits::swap_nibble_in_u8;

#[test]
fn hex_table_examples() {
    #[cfg(not(feature = "opt-low-memory-hex-str-decode-min-table"))]
    {
        assert_eq!(HEX_REV_TABLE_LO[b'0' as usize], 0x00);
        assert_eq!(HEX_REV_TABLE_LO[b'1' as usize], 0x01);
        assert_eq!(HEX_REV_TABLE_LO[b'2' as usize], 0x02);
        assert_eq!(HEX_REV_TABLE_LO[b'3' as usize], 0x03);
        assert_eq!(HEX_REV_TABLE_LO[b'4' as usize], 0x04);
        assert_eq!(HEX_REV_TABLE_LO[b'5' as usize], 0x05);
        assert_eq!(HEX_REV_TABLE_LO[b'6' as usize], 0x06);
        assert_eq!(HEX_REV_TABLE_LO[b'7' as usize], 0x07);
        assert_eq!(HEX_REV_TABLE_LO[b'8' as usize], 0x08);
        assert_eq!(HEX_REV_TABLE_LO[b'9' as usize], 0x09);
        assert_eq!(HEX_REV_TABLE_LO[b'a' as usize], 0x0a);
        assert_eq!(HEX_REV_TABLE_LO[b'b' as usize], 0x0b);
        assert_eq!(HEX_REV_TABLE_LO[b'c' as usize], 0x0c);
        assert_eq!(HEX_REV_TABLE_LO[b'd' as usize], 0x0d);
        assert_eq!(HEX_REV_TABLE_LO[b'e' as usize], 0x0e);
        assert_eq!(HEX_REV_TABLE_LO[b'f' as usize], 0x0f);
        assert_eq!(HEX_REV_TABLE_LO[b'A' as usize], 0x0a);
        assert_eq!(HEX_REV_TABLE_LO[b'B' as usize], 0x0b);
        assert_eq!(HEX_REV_TABLE_LO[b'C' as usize], 0x0c);
        assert_eq!(HEX_REV_TABLE_LO[b'D' as usize], 0x0d);
        assert_eq!(HEX_REV_TABLE_LO[b'E' as usize], 0x0e);
        assert_eq!(HEX_REV_TABLE_LO[b'F' as usize], 0x0f);
    }
    #[cfg(not(feature = "opt-low-memory-hex-str-decode-half-table"))]
    {
        assert_eq!(HEX_REV_TABLE_HI[b'0' as usize], 0x00);
        assert_eq!(HEX_REV_TABLE_HI[b'1' as usize], 0x10);
        assert_eq!(HEX_REV_TABLE_HI[b'2' as usize], 0x20);
        assert_eq!(HEX_REV_TABLE_HI[b'3' as usize], 0x30);
        assert_eq!(HEX_REV_TABLE_HI[b'4' as usize], 0x40);
        assert_eq!(HEX_REV_TABLE_HI[b'5' as usize], 0x50);
        assert_eq!(HEX_REV_TABLE_HI[b'6' as usize], 0x60);
        assert_eq!(HEX_REV_TABLE_HI[b'7' as usize], 0x70);
        assert_eq!(HEX_REV_TABLE_HI[b'8' as usize], 0x80);
        assert_eq!(HEX_REV_TABLE_HI[b'9' as usize], 0x90);
        assert_eq!(HEX_REV_TABLE_HI[b'a' as usize], 0xa0);
        assert_eq!(HEX_REV_TABLE_HI[b'b' as usize], 0xb0);
        assert_eq!(HEX_REV_TABLE_HI[b'c' as usize], 0xc0);
        assert_eq!(HEX_REV_TABLE_HI[b'd' as usize], 0xd0);
        assert_eq!(HEX_REV_TABLE_HI[b'e' as usize], 0xe0);
        assert_eq!(HEX_REV_TABLE_HI[b'f' as usize], 0xf0);
        assert_eq!(HEX_REV_TABLE_HI[b'A' as usize], 0xa0);
        assert_eq!(HEX_REV_TABLE_HI[b'B' as usize], 0xb0);
        assert_eq!(HEX_REV_TABLE_HI[b'C' as usize], 0xc0);
        assert_eq!(HEX_REV_TABLE_HI[b'D' as usize], 0xd0);
        assert_eq!(HEX_REV_TABLE_HI[b'E' as usize], 0xe0);
        assert_eq!(HEX_REV_TABLE_HI[b'F' as usize], 0xf0);
    }
}

#[cfg(not(feature = "opt-low-memory-hex-str-decode-min-table"))]
#[test]
fn hex_table_exhaustive() {
    let mut hash_lo = HashMap::new();
    cfg_if::cfg_if! {
        if #[cfg(not(feature = "opt-low-memory-hex-str-decode-half-table"))] {
            let mut hash_hi = HashMap::new();
        }
    }
    for &ch in &HEX_UPPER_NIBBLE_TABLE {
        assert_eq!(ch, ch.to_ascii_uppercase());
        // Uppercase or a decimal digit
        {
            assert_eq!(
                HexDecodeTableType::from_str_radix(std::str::from_utf8(&[b'0', ch]).unwrap(), 16),
                Ok(HEX_REV_TABLE_LO[ch as usize])
            );
            hash_lo.insert(ch, HEX_REV_TABLE_LO[ch as usize]);
        }
        #[cfg(not(feature = "opt-low-memory-hex-str-decode-half-table"))]
        {
            assert_eq!(
                HexDecodeTableType::from_str_radix(std::str::from_utf8(&[ch, b'0']).unwrap(), 16),
                Ok(HEX_REV_TABLE_HI[ch as usize])
            );
            hash_hi.insert(ch, HEX_REV_TABLE_HI[ch as usize]);
        }
        // Lowercase or a decimal digit
        let ch = ch.to_ascii_lowercase();
        {
            assert_eq!(
                HexDecodeTableType::from_str_radix(std::str::from_utf8(&[b'0', ch]).unwrap(), 16),
                Ok(HEX_REV_TABLE_LO[ch as usize])
            );
            hash_lo.insert(ch, HEX_REV_TABLE_LO[ch as usize]);
        }
        #[cfg(not(feature = "opt-low-memory-hex-str-decode-half-table"))]
        {
            assert_eq!(
                HexDecodeTableType::from_str_radix(std::str::from_utf8(&[ch, b'0']).unwrap(), 16),
                Ok(HEX_REV_TABLE_HI[ch as usize])
            );
            hash_hi.insert(ch, HEX_REV_TABLE_HI[ch as usize]);
        }
    }
    for ch in u8::MIN..=u8::MAX {
        if !hash_lo.contains_key(&ch) {
            assert_eq!(HEX_REV_TABLE_LO[ch as usize], HEX_INVALID);
            #[cfg(not(feature = "opt-low-memory-hex-str-decode-half-table"))]
            {
                assert_eq!(HEX_REV_TABLE_HI[ch as usize], HEX_INVALID);
            }
        }
    }
}

#[test]
fn decode_digit_examples() {
    assert_eq!(decode_digit(b'0'), 0x0);
    assert_eq!(decode_digit(b'1'), 0x1);
    assert_eq!(decode_digit(b'2'), 0x2);
    assert_eq!(decode_digit(b'3'), 0x3);
    assert_eq!(decode_digit(b'4'), 0x4);
    assert_eq!(decode_digit(b'5'), 0x5);
    assert_eq!(decode_digit(b'6'), 0x6);
    assert_eq!(decode_digit(b'7'), 0x7);
    assert_eq!(decode_digit(b'8'), 0x8);
    assert_eq!(decode_digit(b'9'), 0x9);
    assert_eq!(decode_digit(b'a'), 0xa);
    assert_eq!(decode_digit(b'b'), 0xb);
    assert_eq!(decode_digit(b'c'), 0xc);
    assert_eq!(decode_digit(b'd'), 0xd);
    assert_eq!(decode_digit(b'e'), 0xe);
    assert_eq!(decode_digit(b'f'), 0xf);
    assert_eq!(decode_digit(b'A'), 0xa);
    assert_eq!(decode_digit(b'B'), 0xb);
    assert_eq!(decode_digit(b'C'), 0xc);
    assert_eq!(decode_digit(b'D'), 0xd);
    assert_eq!(decode_digit(b'E'), 0xe);
    assert_eq!(decode_digit(b'F'), 0xf);
}

#[test]
fn decode_digit_exhaustive() {
    let mut hash = HashMap::new();
    for i in 0x0..=0xf {
        let s = format!("{i:01x}");
        assert_eq!(s.len(), 1);
        // Insert lowercase entry
        let s = s.as_bytes()[0];
        let v = decode_digit(s.to_ascii_lowercase());
        assert_eq!(v, i);
        assert_eq!(hash.insert(s, v), None);
        // Insert uppercase entry
        let s = s.to_ascii_uppercase();
        let v = decode_digit(s);
        match hash.entry(s) {
            Entry::Occupied(x) => {
                assert_eq!(v, *x.get());
            }
            Entry::Vacant(x) => {
                x.insert(v);
            }
        }
    }
    // Other digits are all invalid.
    for ch in u8::MIN..=u8::MAX {
        match hash.entry(ch) {
            Entry::Occupied(_) => {
                assert!(decode_digit(ch) < 0x10);
            }
            Entry::Vacant(_) => {
                assert_eq!(decode_digit(ch), 0xff);
            }
        }
    }
}

#[test]
fn hex_digits_for_encode() {
    for &ch in &HEX_UPPER_NIBBLE_TABLE {
        // To match to the official implementation,
        // hexadecimal digits must be upper case.
        assert!(ch.is_ascii_digit() || ch.is_ascii_uppercase());
    }
}

#[test]
fn decode_1_examples() {
    assert_eq!(decode_1(b"12"), Some(0x12));
    assert_eq!(decode_1(b"0f"), Some(0x0f));
    assert_eq!(decode_1(b"A5"), Some(0xa5));
    assert_eq!(decode_1(b"g0"), None);
    assert_eq!(decode_1(b"0g"), None);
}

#[test]
fn decode_1_fail_len() {
    // The length of the input must be 2.
    assert_eq!(decode_1(b"1"), None);
    assert_eq!(decode_1(b"111"), None);
}

#[test]
fn decode_array_examples() {
    let mut array = [0u8; 8];
    // Accepts both lower case and upper case values.
    assert!(decode_array(&mut array, b"0123456789abcdef"));
    assert_eq!(&array, b"\x01\x23\x45\x67\x89\xab\xcd\xef");
    assert!(decode_array(&mut array, b"0123456789ABCDEF"));
    assert_eq!(&array, b"\x01\x23\x45\x67\x89\xab\xcd\xef");
}

#[test]
fn decode_array_fail_len() {
    let mut array = [0u8; 8];
    // 8 byte buffer requires 16 byte input but 14 is given here.
    assert!(!decode_array(&mut array, b"0123456789abcd"));
}

#[test]
fn decode_array_fail_data() {
    let mut array = [0u8; 8];
    // Invalid digit '@' is given.
    assert!(!decode_array(&mut array, b"0123456@89abcdef"));
}

#[test]
fn decode_rev_1_examples() {
    assert_eq!(decode_rev_1(b"12"), Some(0x21));
    assert_eq!(decode_rev_1(b"0f"), Some(0xf0));
    assert_eq!(decode_rev_1(b"A5"), Some(0x5a));
    assert_eq!(decode_rev_1(b"g0"), None);
    assert_eq!(decode_rev_1(b"0g"), None);
}

#[test]
fn decode_rev_1_exhaustive() {
    for value in u8::MIN..=u8::MAX {
        let swapped = swap_nibble_in_u8(value);
        let upper = format!("{swapped:02X}");
        let lower = format!("{swapped:02x}");
        assert_eq!(decode_rev_1(upper.as_bytes()), Some(value));
        assert_eq!(decode_rev_1(lower.as_bytes()), Some(value));
    }
}

#[test]
fn decode_rev_1_fail_len() {
    // The length of the input must be 2.
    assert_eq!(decode_rev_1(b"1"), None);
    assert_eq!(decode_rev_1(b"111"), None);
}

#[test]
fn decode_rev_array_examples() {
    let mut array = [0u8; 8];
    // Accepts both lower case and upper case values.
    assert!(decode_rev_array(&mut array, b"0123456789abcdef"));
    assert_eq!(&array, b"\x10\x32\x54\x76\x98\xba\xdc\xfe");
    assert!(decode_rev_array(&mut array, b"0123456789ABCDEF"));
    assert_eq!(&array, b"\x10\x32\x54\x76\x98\xba\xdc\xfe");
}

#[test]
fn decode_rev_array_fail_len() {
    let mut array = [0u8; 8];
    // 8 byte buffer requires 16 byte input but 14 is given here.
    assert!(!decode_rev_array(&mut array, b"0123456789abcd"));
}

#[test]
fn decode_rev_array_fail_data() {
    let mut array = [0u8; 8];
    // Invalid digit '@' is given.
    assert!(!decode_rev_array(&mut array, b"0123456@89abcdef"));
}

#[test]
fn encode_rev_1_example() {
    let mut dst = [0u8; 2];
    encode_rev_1(dst.as_mut(), 0x5a);
    assert_eq!(dst.as_slice(), b"A5");
}

#[test]
fn encode_rev_1_example_with_excess_bytes() {
    let mut dst = [0xffu8; 4];
    encode_rev_1(dst.as_mut(), 0x5a);
    // Excess part of the buffer is kept.
    assert_eq!(dst.as_slice(), b"A5\xff\xff");
}

#[test]
fn encode_rev_1_exhaustive() {
    for value in u8::MIN..=u8::MAX {
        let swapped = swap_nibble_in_u8(value);
        let expected = format!("{swapped:02X}");
        let mut dst = [0u8; 2];
        encode_rev_1(dst.as_mut(), value);
        assert_eq!(expected.as_bytes(), dst.as_slice());
    }
}

#[test]
#[should_panic]
fn encode_rev_1_insufficient_buffer() {
    let mut dst = [0u8; 1];
    encode_rev_1(dst.as_mut(), 0x5a);
}

#[test]
fn encode_rev_array_example() {
    let mut dst = [0u8; 8 * 2];
    encode_rev_array(
        dst.as_mut(),
        &[0x01, 0x23, 0x45, 0x67, 0x89, 0xab, 0xcd, 0xef],
    );
    assert_eq!(dst.as_slice(), b"1032547698BADCFE");
}
