// Verification hooks (compiled only with `--cfg fast_tlsh_verif`).
//! Dumps the compiled hexadecimal tables.

/// Dumps the compiled constants of this module.
pub fn dump(f: &mut dyn FnMut(&str, &[u64])) {
    let mut nib = [0u64; 16];
    for (d, &s) in nib.iter_mut().zip(super::HEX_UPPER_NIBBLE_TABLE.iter()) {
        *d = s as u64;
    }
    f("hex_upper_nibble", &nib);
    #[cfg(not(feature = "opt-low-memory-hex-str-decode-min-table"))]
    {
        let mut lo = [0u64; 256];
        for (d, &s) in lo.iter_mut().zip(super::HEX_REV_TABLE_LO.iter()) {
            *d = s as u64;
        }
        #[cfg(not(feature = "opt-low-memory-hex-str-decode-quarter-table"))]
        f("hex_rev_lo_u16", &lo);
        #[cfg(feature = "opt-low-memory-hex-str-decode-quarter-table")]
        f("hex_rev_lo_u8", &lo);
    }
    #[cfg(not(feature = "opt-low-memory-hex-str-decode-quarter-table"))]
    f("hex_invalid_u16", &[super::HEX_INVALID as u64]);
    #[cfg(feature = "opt-low-memory-hex-str-decode-quarter-table")]
    f("hex_invalid_u8", &[super::HEX_INVALID as u64]);
}
