// SPDX-License-Identifier: Apache-2.0 OR MIT
// SPDX-FileCopyrightText: Copyright (C) 2024 Tsukasa OI <floss_ssdeep@irq.a4lg.com>.

//! Tests: [`crate::parse::bits`].

#![cfg(test)]

use super::{naive, swap_nibble_in_u8};

#[test]
fn examples() {
    assert_eq!(swap_nibble_in_u8(0x12), 0x21);
    assert_eq!(swap_nibble_in_u8(0x7c), 0xc7);
    assert_eq!(swap_nibble_in_u8(0x88), 0x88);
}

#[test]
fn exhaustive() {
    for value in u8::MIN..=u8::MAX {
        // 0x12 -> "21", equivalent to swapping nibbles inside a byte.
        let s: String = format!("{value:02x}").chars().rev().collect();
        assert_eq!(
            u8::from_str_radix(s.as_str(), 16),
            Ok(swap_nibble_in_u8(value))
        );
    }
}

#[test]
fn equivalence_optimized_impl() {
    for value in u8::MIN..=u8::MAX {
        assert_eq!(
            super::swap_nibble_in_u8(value),
            naive::swap_nibble_in_u8(value)
        );
    }
}
