// SPDX-License-Identifier: Apache-2.0 OR MIT
// SPDX-FileCopyrightText: Copyright (C) 2024 Tsukasa OI <floss_ssdeep@irq.a4lg.com>

//! Private bit-manipulation operations

/// Swaps each nibble in the byte.
///
/// This function swaps upper 4 bits (the upper nibble) and lower 4 bits
/// (the lower nibble).
#[cfg(any(
    test,
    doc,
    all(
        feature = "opt-low-memory-hex-str-encode-half-table",
        not(feature = "opt-low-memory-hex-str-encode-min-table")
    )
))]
pub fn swap_nibble_in_u8(value: u8) -> u8 {
    value.rotate_left(4)
}

/// Naïve bit manipulation implementations.
#[cfg(any(doc, test))]
#[cfg_attr(feature = "unstable", doc(cfg(all())))]
mod naive {
    /// Swaps each nibble in the byte.
    ///
    /// This function swaps upper 4 bits (the upper nibble) and lower 4 bits
    /// (the lower nibble).
    pub fn swap_nibble_in_u8(value: u8) -> u8 {
        ((value >> 4) & 0x0f) | ((value & 0x0f) << 4)
    }
}

mod tests;
