// SPDX-License-Identifier: Apache-2.0 OR MIT
// SPDX-FileCopyrightText: Copyright (C) 2024 Tsukasa OI <floss_ssdeep@irq.a4lg.com>.

//! Hexadecimal string utilities.

#[cfg(all(
    feature = "opt-low-memory-hex-str-encode-half-table",
    not(feature = "opt-low-memory-hex-str-encode-min-table")
))]
use crate::parse::bits::swap_nibble_in_u8;

#[cfg(fast_tlsh_verif)]
#[allow(missing_docs)]
#[allow(clippy::missing_docs_in_private_items)]
pub(crate) mod verif_hooks;

/// The uppercase hexadecimal digit array.
const HEX_UPPER_NIBBLE_TABLE: [u8; 16] = [
    b'0', b'1', b'2', b'3', b'4', b'5', b'6', b'7', b'8', b'9', b'A', b'B', b'C', b'D', b'E', b'F',
];

/// The array to encode a byte to two uppercase hexadecimal digits.
#[cfg(any(doc, not(feature = "opt-low-memory-hex-str-encode-min-table")))]
#[cfg_attr(feature = "unstable", doc(cfg(all())))]
const HEX_UPPER_BYTE_TABLE: [[u8; 2]; 256] = {
    let mut array = [[0; 2]; 256];
    let mut i = 0;
    while i < 256 {
        array[i] = [
            HEX_UPPER_NIBBLE_TABLE[i >> 4],
            HEX_UPPER_NIBBLE_TABLE[i & 0x0f],
        ];
        i += 1;
    }
    array
};

/// The array to encode a byte to two uppercase hexadecimal digits (in reverse nibble).
#[cfg(any(doc, not(feature = "opt-low-memory-hex-str-encode-half-table")))]
#[cfg_attr(feature = "unstable", doc(cfg(all())))]
const HEX_UPPER_BYTE_REV_TABLE: [[u8; 2]; 256] = {
    let mut array = HEX_UPPER_BYTE_TABLE;
    let mut i = 0;
    while i < 256 {
        // Swap high digit and low digit.
        (array[i][0], array[i][1]) = (array[i][1], array[i][0]);
        i += 1;
    }
    array
};

/// The type of [`HEX_INVALID`] and [`HEX_REV_TABLE_LO`].
#[cfg(not(feature = "opt-low-memory-hex-str-decode-quarter-table"))]
#[cfg_attr(feature = "unstable", doc(cfg(all())))]
type HexDecodeTableType = u16;

/// Invalid hexadecimal character (mask or value, depending on the configuration).
///
/// The type of this value is [`HexDecodeTableType`].
#[cfg(not(feature = "opt-low-memory-hex-str-decode-quarter-table"))]
#[cfg_attr(feature = "unstable", doc(cfg(all())))]
const HEX_INVALID: HexDecodeTableType = 0x100;

/// Hexadecimal character-to-value (and validness) table (for low nibble).
///
/// The type of elements in this table is [`HexDecodeTableType`].
#[rustfmt::skip]
#[cfg(not(feature = "opt-low-memory-hex-str-decode-quarter-table"))]
#[cfg_attr(feature = "unstable", doc(cfg(all())))]
const HEX_REV_TABLE_LO: [HexDecodeTableType; 256] = [
    0x100, 0x100, 0x100, 0x100, 0x100, 0x100, 0x100, 0x100, 0x100, 0x100, 0x100, 0x100, 0x100, 0x100, 0x100, 0x100,
    0x100, 0x100, 0x100, 0x100, 0x100, 0x100, 0x100, 0x100, 0x100, 0x100, 0x100, 0x100, 0x100, 0x100, 0x100, 0x100,
    0x100, 0x100, 0x100, 0x100, 0x100, 0x100, 0x100, 0x100, 0x100, 0x100, 0x100, 0x100, 0x100, 0x100, 0x100, 0x100,
    0x000, 0x001, 0x002, 0x003, 0x004, 0x005, 0x006, 0x007, 0x008, 0x009, 0x100, 0x100, 0x100, 0x100, 0x100, 0x100,
    0x100, 0x00a, 0x00b, 0x00c, 0x00d, 0x00e, 0x00f, 0x100, 0x100, 0x100, 0x100, 0x100, 0x100, 0x100, 0x100, 0x100,
    0x100, 0x100, 0x100, 0x100, 0x100, 0x100, 0x100, 0x100, 0x100, 0x100, 0x100, 0x100, 0x100, 0x100, 0x100, 0x100,
    0x100, 0x00a, 0x00b, 0x00c, 0x00d, 0x00e, 0x00f, 0x100, 0x100, 0x100, 0x100, 0x100, 0x100, 0x100, 0x100, 0x100,
    0x100, 0x100, 0x100, 0x100, 0x100, 0x100, 0x100, 0x100, 0x100, 0x100, 0x100, 0x100, 0x100, 0x100, 0x100, 0x100,
    0x100, 0x100, 0x100, 0x100, 0x100, 0x100, 0x100, 0x100, 0x100, 0x100, 0x100, 0x100, 0x100, 0x100, 0x100, 0x100,
    0x100, 0x100, 0x100, 0x100, 0x100, 0x100, 0x100, 0x100, 0x100, 0x100, 0x100, 0x100, 0x100, 0x100, 0x100, 0x100,
    0x100, 0x100, 0x100, 0x100, 0x100, 0x100, 0x100, 0x100, 0x100, 0x100, 0x100, 0x100, 0x100, 0x100, 0x100, 0x100,
    0x100, 0x100, 0x100, 0x100, 0x100, 0x100, 0x100, 0x100, 0x100, 0x100, 0x100, 0x100, 0x100, 0x100, 0x100, 0x100,
    0x100, 0x100, 0x100, 0x100, 0x100, 0x100, 0x100, 0x100, 0x100, 0x100, 0x100, 0x100, 0x100, 0x100, 0x100, 0x100,
    0x100, 0x100, 0x100, 0x100, 0x100, 0x100, 0x100, 0x100, 0x100, 0x100, 0x100, 0x100, 0x100, 0x100, 0x100, 0x100,
    0x100, 0x100, 0x100, 0x100, 0x100, 0x100, 0x100, 0x100, 0x100, 0x100, 0x100, 0x100, 0x100, 0x100, 0x100, 0x100,
    0x100, 0x100, 0x100, 0x100, 0x100, 0x100, 0x100, 0x100, 0x100, 0x100, 0x100, 0x100, 0x100, 0x100, 0x100, 0x100,
];

/// Hexadecimal character-to-value (and validness) table (for hi nibble).
///
/// The type of elements in this table is [`HexDecodeTableType`].
#[cfg(not(feature = "opt-low-memory-hex-str-decode-half-table"))]
#[cfg_attr(feature = "unstable", doc(cfg(all())))]
const HEX_REV_TABLE_HI: [HexDecodeTableType; 256] = {
    let mut array = [0; 256];
    let mut i = 0;
    while i < 256 {
        let x = HEX_REV_TABLE_LO[i];
        array[i] = if x == HEX_INVALID { x } else { x << 4 };
        i += 1;
    }
    array
};

/// The type of [`HEX_INVALID`] and [`HEX_REV_TABLE_LO`].
#[cfg(feature = "opt-low-memory-hex-str-decode-quarter-table")]
#[cfg_attr(feature = "unstable", doc(cfg(all())))]
type HexDecodeTableType = u8;

/// Invalid hexadecimal character (mask or value, depending on the configuration).
///
/// The type of this value is [`HexDecodeTableType`].
#[cfg(feature = "opt-low-memory-hex-str-decode-quarter-table")]
#[cfg_attr(feature = "unstable", doc(cfg(all())))]
const HEX_INVALID: HexDecodeTableType = 0xff;

/// Hexadecimal character-to-value (and validness) table (for low nibble).
///
/// The type of elements in this table is [`HexDecodeTableType`].
#[cfg(all(
    feature = "opt-low-memory-hex-str-decode-quarter-table",
    not(feature = "opt-low-memory-hex-str-decode-min-table")
))]
#[cfg_attr(feature = "unstable", doc(cfg(all())))]
const HEX_REV_TABLE_LO: [HexDecodeTableType; 256] = [
    0xff, 0xff, 0xff, 0xff, 0xff, 0xff, 0xff, 0xff, 0xff, 0xff, 0xff, 0xff, 0xff, 0xff, 0xff, 0xff,
    0xff, 0xff, 0xff, 0xff, 0xff, 0xff, 0xff, 0xff, 0xff, 0xff, 0xff, 0xff, 0xff, 0xff, 0xff, 0xff,
    0xff, 0xff, 0xff, 0xff, 0xff, 0xff, 0xff, 0xff, 0xff, 0xff, 0xff, 0xff, 0xff, 0xff, 0xff, 0xff,
    0x00, 0x01, 0x02, 0x03, 0x04, 0x05, 0x06, 0x07, 0x08, 0x09, 0xff, 0xff, 0xff, 0xff, 0xff, 0xff,
    0xff, 0x0a, 0x0b, 0x0c, 0x0d, 0x0e, 0x0f, 0xff, 0xff, 0xff, 0xff, 0xff, 0xff, 0xff, 0xff, 0xff,
    0xff, 0xff, 0xff, 0xff, 0xff, 0xff, 0xff, 0xff, 0xff, 0xff, 0xff, 0xff, 0xff, 0xff, 0xff, 0xff,
    0xff, 0x0a, 0x0b, 0x0c, 0x0d, 0x0e, 0x0f, 0xff, 0xff, 0xff, 0xff, 0xff, 0xff, 0xff, 0xff, 0xff,
    0xff, 0xff, 0xff, 0xff, 0xff, 0xff, 0xff, 0xff, 0xff, 0xff, 0xff, 0xff, 0xff, 0xff, 0xff, 0xff,
    0xff, 0xff, 0xff, 0xff, 0xff, 0xff, 0xff, 0xff, 0xff, 0xff, 0xff, 0xff, 0xff, 0xff, 0xff, 0xff,
    0xff, 0xff, 0xff, 0xff, 0xff, 0xff, 0xff, 0xff, 0xff, 0xff, 0xff, 0xff, 0xff, 0xff, 0xff, 0xff,
    0xff, 0xff, 0xff, 0xff, 0xff, 0xff, 0xff, 0xff, 0xff, 0xff, 0xff, 0xff, 0xff, 0xff, 0xff, 0xff,
    0xff, 0xff, 0xff, 0xff, 0xff, 0xff, 0xff, 0xff, 0xff, 0xff, 0xff, 0xff, 0xff, 0xff, 0xff, 0xff,
    0xff, 0xff, 0xff, 0xff, 0xff, 0xff, 0xff, 0xff, 0xff, 0xff, 0xff, 0xff, 0xff, 0xff, 0xff, 0xff,
    0xff, 0xff, 0xff, 0xff, 0xff, 0xff, 0xff, 0xff, 0xff, 0xff, 0xff, 0xff, 0xff, 0xff, 0xff, 0xff,
    0xff, 0xff, 0xff, 0xff, 0xff, 0xff, 0xff, 0xff, 0xff, 0xff, 0xff, 0xff, 0xff, 0xff, 0xff, 0xff,
    0xff, 0xff, 0xff, 0xff, 0xff, 0xff, 0xff, 0xff, 0xff, 0xff, 0xff, 0xff, 0xff, 0xff, 0xff, 0xff,
];

/// Converts a hexadecimal digit to an [`u8`] value.
///
/// If the conversion fails, it returns the fixed value `0xff`.
///
/// Note that this kind of implementation is notoriously bad
/// for branch prediction.
#[cfg(any(doc, test, feature = "opt-low-memory-hex-str-decode-min-table"))]
#[cfg_attr(feature = "unstable", doc(cfg(all())))]
#[inline]
pub(super) const fn decode_digit(digit: u8) -> u8 {
    match digit {
        b'0'..=b'9' => digit - b'0',
        b'A'..=b'F' => digit - b'A' + 10,
        b'a'..=b'f' => digit - b'a' + 10,
        // HEX_INVALID must be equal to 0xff when used outside tests.
        _ => 0xff,
    }
}
#[cfg(feature = "opt-low-memory-hex-str-decode-quarter-table")]
static_assertions::const_assert_eq!(HEX_INVALID, 0xff);

/// Converts length 2 hexadecimal string (with normal nibble endianness)
/// to an [`u8`] value.
///
/// If the conversion fails, it returns [`None`].
#[cfg(any(test, doc, not(feature = "opt-simd-parse-hex")))]
#[cfg_attr(feature = "unstable", doc(cfg(all())))]
#[inline(always)]
pub fn decode_1(src: &[u8]) -> Option<u8> {
    if src.len() != 2 {
        return None;
    }
    cfg_if::cfg_if! {
        if #[cfg(not(feature = "opt-low-memory-hex-str-decode-half-table"))] {
            let value = HEX_REV_TABLE_HI[src[0] as usize] | HEX_REV_TABLE_LO[src[1] as usize];
            if value & HEX_INVALID != 0 {
                None
            } else {
                Some(value as u8)
            }
        } else if #[cfg(not(feature = "opt-low-memory-hex-str-decode-quarter-table"))] {
            let value_hi = HEX_REV_TABLE_LO[src[0] as usize];
            let value_lo = HEX_REV_TABLE_LO[src[1] as usize];
            let value = value_hi << 4 | value_lo;
            if value >= HEX_INVALID {
                None
            } else {
                Some(value as u8)
            }
        } else if #[cfg(not(feature = "opt-low-memory-hex-str-decode-min-table"))] {
            let value_hi = HEX_REV_TABLE_LO[src[0] as usize];
            let value_lo = HEX_REV_TABLE_LO[src[1] as usize];
            if (value_lo == HEX_INVALID) || (value_hi == HEX_INVALID) {
                None
            } else {
                Some(value_hi << 4 | value_lo)
            }
        } else {
            let value_hi = decode_digit(src[0]);
            let value_lo = decode_digit(src[1]);
            if (value_lo == HEX_INVALID) || (value_hi == HEX_INVALID) {
                None
            } else {
                Some(value_hi << 4 | value_lo)
            }
        }
    }
}

/// Converts a hexadecimal string (with normal nibble endianness)
/// to an array of [`u8`].
///
/// It returns whether this function has succeeded.
/// If not, `dst` may be partially written (or may be not).
#[cfg(any(test, doc, not(feature = "opt-simd-parse-hex")))]
#[cfg_attr(feature = "unstable", doc(cfg(all())))]
#[inline]
pub fn decode_array<const N: usize>(dst: &mut [u8; N], src: &[u8]) -> bool {
    if src.len() != N * 2 {
        return false;
    }
    for (dst, src) in dst.iter_mut().zip(src.chunks_exact(2)) {
        let value = decode_1(src);
        if let Some(value) = value {
            *dst = value;
        } else {
            return false;
        }
    }
    true
}

/// Converts length 2 hexadecimal string (with "reverse" nibble endianness)
/// to an [`u8`] value.
///
/// If the conversion fails, it returns [`None`].
#[inline(always)]
pub fn decode_rev_1(src: &[u8]) -> Option<u8> {
    if src.len() != 2 {
        return None;
    }
    cfg_if::cfg_if! {
        if #[cfg(not(feature = "opt-low-memory-hex-str-decode-half-table"))] {
            let value = HEX_REV_TABLE_LO[src[0] as usize] | HEX_REV_TABLE_HI[src[1] as usize];
            if value & HEX_INVALID != 0 {
                None
            } else {
                Some(value as u8)
            }
        } else if #[cfg(not(feature = "opt-low-memory-hex-str-decode-quarter-table"))] {
            let value_lo = HEX_REV_TABLE_LO[src[0] as usize];
            let value_hi = HEX_REV_TABLE_LO[src[1] as usize];
            let value = value_hi << 4 | value_lo;
            if value >= HEX_INVALID {
                None
            } else {
                Some(value as u8)
            }
        } else if #[cfg(not(feature = "opt-low-memory-hex-str-decode-min-table"))] {
            let value_lo = HEX_REV_TABLE_LO[src[0] as usize];
            let value_hi = HEX_REV_TABLE_LO[src[1] as usize];
            if (value_lo == HEX_INVALID) || (value_hi == HEX_INVALID) {
                None
            } else {
                Some(value_hi << 4 | value_lo)
            }
        } else {
            let value_lo = decode_digit(src[0]);
            let value_hi = decode_digit(src[1]);
            if (value_lo == HEX_INVALID) || (value_hi == HEX_INVALID) {
                None
            } else {
                Some(value_hi << 4 | value_lo)
            }
        }
    }
}

/// Converts a hexadecimal string (with "reverse" nibble endianness)
/// to an array of [`u8`].
///
/// It returns whether this function has succeeded.
/// If not, `dst` may be partially written (or may be not).
#[inline]
pub fn decode_rev_array<const N: usize>(dst: &mut [u8; N], src: &[u8]) -> bool {
    if src.len() != N * 2 {
        return false;
    }
    for (dst, src) in dst.iter_mut().zip(src.chunks_exact(2)) {
        let value = decode_rev_1(src);
        if let Some(value) = value {
            *dst = value;
        } else {
            return false;
        }
    }
    true
}

/// Convert an [`u8`] array into a hexadecimal string (without reverse nibble conversion).
#[cfg(not(feature = "opt-simd-convert-hex"))]
#[inline]
pub fn encode_array<const N: usize>(dst: &mut [u8], src: &[u8; N]) {
    for (dst, &value) in dst.chunks_exact_mut(2).zip(src.iter()) {
        cfg_if::cfg_if! {
            if #[cfg(not(feature = "opt-low-memory-hex-str-encode-min-table"))] {
                dst.copy_from_slice(&HEX_UPPER_BYTE_TABLE[value as usize]);
            } else {
                dst[0] = HEX_UPPER_NIBBLE_TABLE[(value >> 4) as usize];
                dst[1] = HEX_UPPER_NIBBLE_TABLE[(value & 0x0f) as usize];
            }
        }
    }
}

/// Convert an [`u8`] value into a hexadecimal string (with reverse nibble conversion).
#[inline(always)]
pub fn encode_rev_1(dst: &mut [u8], value: u8) {
    assert!(dst.len() >= 2);
    cfg_if::cfg_if! {
        if #[cfg(not(feature = "opt-low-memory-hex-str-encode-half-table"))] {
            dst[0..2].copy_from_slice(&HEX_UPPER_BYTE_REV_TABLE[value as usize]);
        } else if #[cfg(not(feature = "opt-low-memory-hex-str-encode-min-table"))] {
            dst[0..2].copy_from_slice(&HEX_UPPER_BYTE_TABLE[swap_nibble_in_u8(value) as usize]);
        } else {
            dst[0] = HEX_UPPER_NIBBLE_TABLE[(value & 0x0f) as usize];
            dst[1] = HEX_UPPER_NIBBLE_TABLE[(value >> 4) as usize];
        }
    }
}

/// Convert an [`u8`] array into a hexadecimal string (with reverse nibble conversion).
#[inline]
pub fn encode_rev_array<const N: usize>(dst: &mut [u8], src: &[u8; N]) {
    for (dst, &value) in dst.chunks_exact_mut(2).zip(src.iter()) {
        cfg_if::cfg_if! {
            if #[cfg(not(feature = "opt-low-memory-hex-str-encode-half-table"))] {
                dst.copy_from_slice(&HEX_UPPER_BYTE_REV_TABLE[value as usize]);
            } else if #[cfg(not(feature = "opt-low-memory-hex-str-encode-min-table"))] {
                dst.copy_from_slice(&HEX_UPPER_BYTE_TABLE[swap_nibble_in_u8(value) as usize]);
            } else {
                dst[0] = HEX_UPPER_NIBBLE_TABLE[(value & 0x0f) as usize];
                dst[1] = HEX_UPPER_NIBBLE_TABLE[(value >> 4) as usize];
            }
        }
    }
}

mod tests;
