// SPDX-License-Identifier: Apache-2.0 OR MIT
// SPDX-FileCopyrightText: Copyright (C) 2024 Tsukasa OI <floss_ssdeep@irq.a4lg.com>.

//! Tests: [`crate::compare_easy`].

#![cfg(test)]

use super::{compare, compare_with};

use crate::errors::{ParseError, ParseErrorSide};
use crate::hashes;

#[test]
fn test_compare_with() {
    // Comparison succeeds.
    let result = compare_with::<hashes::Short>(
        "T140D5F17F44F8AB007AE2AC46E515DC",
        "T140D5F17F44FCAB007AE2A846E515DC",
    );
    assert_eq!(result, Ok(2));

    const HASH_OK: &str = "T140D5F17F44F8AB007AE2AC46E515DC";
    const HASH_ERR: &str = "TNULL";
    // Left side fails.
    let result = compare_with::<hashes::Short>(HASH_ERR, HASH_OK);
    let err = result.unwrap_err();
    assert_eq!(err.side(), ParseErrorSide::Left);
    assert_eq!(err.inner_err(), ParseError::InvalidStringLength);
    // Right side fails.
    let result = compare_with::<hashes::Short>(HASH_OK, HASH_ERR);
    let err = result.unwrap_err();
    assert_eq!(err.side(), ParseErrorSide::Right);
    assert_eq!(err.inner_err(), ParseError::InvalidStringLength);
}

#[test]
fn test_compare() {
    // Comparison succeeds.
    let result = compare(
        "T12AD5BE86FFE41D17CC268876A9AE472077B2B0032716DBAF1849A7647DDB7C0DF16488",
        "T1EDD5BE96FFE41D1BCC268C7699AE4720B7B2A0032716DBAF1848A7647DD77C0DF16488",
    );
    assert_eq!(result, Ok(9));

    const HASH_OK: &str =
        "T12AD5BE86FFE41D17CC268876A9AE472077B2B0032716DBAF1849A7647DDB7C0DF16488";
    const HASH_ERR: &str = "TNULL";
    // Left side fails.
    let result = compare(HASH_ERR, HASH_OK);
    let err = result.unwrap_err();
    assert_eq!(err.side(), ParseErrorSide::Left);
    assert_eq!(err.inner_err(), ParseError::InvalidStringLength);
    // Right side fails.
    let result = compare(HASH_OK, HASH_ERR);
    let err = result.unwrap_err();
    assert_eq!(err.side(), ParseErrorSide::Right);
    assert_eq!(err.inner_err(), ParseError::InvalidStringLength);
}
