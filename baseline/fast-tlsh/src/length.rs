// SPDX-License-Identifier: Apache-2.0 OR MIT
// SPDX-FileCopyrightText: Copyright 2013 Trend Micro Incorporated
// SPDX-FileCopyrightText: Copyright (C) 2024 Tsukasa OI <floss_ssdeep@irq.a4lg.com>.

//! Data length encodings and other handlings.

use core::ops::RangeInclusive;

use crate::buckets::constrained::{FuzzyHashBucketMapper, FuzzyHashBucketsInfo};
use crate::buckets::{NUM_BUCKETS_LONG, NUM_BUCKETS_NORMAL, NUM_BUCKETS_SHORT};
use crate::compare::dist_length::{distance, MAX_DISTANCE};
use crate::errors::ParseError;
#[allow(unused_imports)]
use crate::macros::{invariant, optionally_unsafe};
use crate::parse::hex_str::decode_rev_1;

/// The private part.
mod private {
    /// The sealed trait.
    pub trait Sealed {}
}
#[cfg(fast_tlsh_verif)]
#[allow(missing_docs)]
#[allow(clippy::missing_docs_in_private_items)]
pub(crate) mod verif_hooks;

/// The number of valid encoded length values.
///
/// Because the length is encoded as an 8-bit integer, this constant shall be
/// equal to or less than 2<sup>8</sup> (`256`).
pub const ENCODED_VALUE_SIZE: usize = 170;
static_assertions::const_assert!(ENCODED_VALUE_SIZE <= 256);

/// Top values for each data length encodings.
///
/// This array is strictly increasing and encodes the *maximum* data length
/// (inclusive) for each 8-bit encoded value.
#[rustfmt::skip]
const TOP_VALUE_BY_ENCODING: [u32; ENCODED_VALUE_SIZE] = [
    // 0x00-0x0f: == floor(1.5^(i+1))
    1,
    2,
    3,
    5,
    7,
    11,
    17,
    25,
    38,
    57,
    86,
    129,
    194,
    291,
    437,
    656,
    // 0x10-0x15: == floor(657 * 1.3^(i-0x10+1))
    854,
    1110,
    1443,
    1876,
    2439,
    3171,
    // 0x16-0xa9 : ~= floor(3159.625 * 1.1^(i-0x16+1))
    // [gets inexact as the index increases]
    3475,
    3823,
    4205,
    4626,
    5088,
    5597,
    6157,
    6772,
    7450,
    8195,
    9014,
    9916,
    10907,
    11998,
    13198,
    14518,
    15970,
    17567,
    19323,
    21256,
    23382,
    25720,
    28292,
    31121,
    34233,
    37656,
    41422,
    45564,
    50121,
    55133,
    60646,
    66711,
    73382,
    80721,
    88793,
    97672,
    107439,
    118183,
    130002,
    143002,
    157302,
    173032,
    190335,
    209369,
    230306,
    253337,
    278670,
    306538,
    337191,
    370911,
    408002,
    448802,
    493682,
    543050,
    597356,
    657091,
    722800,
    795081,
    874589,
    962048,
    1058252,
    1164078,
    1280486,
    1408534,
    1549388,
    1704327,
    1874759,
    2062236,
    2268459,
    2495305,
    2744836,
    3019320,
    3321252,
    3653374,
    4018711,
    4420582,
    4862641,
    5348905,
    5883796,
    6472176,
    7119394,
    7831333,
    8614467,
    9475909,
    10423501,
    11465851,
    12612437,
    13873681,
    15261050,
    16787154,
    18465870,
    20312458,
    22343706,
    24578077,
    27035886,
    29739474,
    32713425,
    35984770,
    39583245,
    43541573,
    47895730,
    52685306,
    57953837,
    63749221,
    70124148,
    77136564,
    84850228,
    93335252,
    102668779,
    112935659,
    124229227,
    136652151,
    150317384,
    165349128,
    181884040,
    200072456,
    220079703,
    242087671,
    266296456,
    292926096,
    322218735,
    354440623,
    389884688,
    428873168,
    471760495,
    518936559,
    570830240,
    627913311,
    690704607,
    759775136,
    835752671,
    919327967,
    1011260767,
    1112386880,
    1223623232,
    1345985727,
    1480584256,
    1628642751,
    1791507135,
    1970657856,
    2167723648,
    2384496256,
    2622945920,
    2885240448,
    3173764736,
    3491141248,
    3840255616,
    4224281216,
];

/// The maximum data length (inclusive).
pub(crate) const MAX: u32 = TOP_VALUE_BY_ENCODING[TOP_VALUE_BY_ENCODING.len() - 1];

/// Denotes bucket count-specific length constraints.
pub trait ConstrainedLengthProcessingInfo: private::Sealed {
    /// The minimum data length (on [all modes](DataLengthProcessingMode)).
    const MIN: u32;
    /// The minimum data length (on [the conservative mode](DataLengthProcessingMode::Conservative)).
    const MIN_CONSERVATIVE: u32;
    /// The maximum data length (inclusive).
    ///
    /// Note that this value is the same across all
    /// [length processing information](LengthProcessingInfo) instantiations.
    const MAX: u32 = self::MAX;
}

/// Length processing information (depending on the number of buckets).
///
/// A valid instantiation of this type (constrained by a private trait)
/// implements the sealed trait [`ConstrainedLengthProcessingInfo`].
pub struct LengthProcessingInfo<const SIZE_BUCKETS: usize>
where
    FuzzyHashBucketsInfo<SIZE_BUCKETS>: FuzzyHashBucketMapper;
// Short (48 bucket) information
impl private::Sealed for LengthProcessingInfo<NUM_BUCKETS_SHORT> where
    FuzzyHashBucketsInfo<NUM_BUCKETS_SHORT>: FuzzyHashBucketMapper
{
}
impl ConstrainedLengthProcessingInfo for LengthProcessingInfo<NUM_BUCKETS_SHORT>
where
    FuzzyHashBucketsInfo<NUM_BUCKETS_SHORT>: FuzzyHashBucketMapper,
{
    const MIN: u32 = 10;
    const MIN_CONSERVATIVE: u32 = 10;
}
// Normal (128 bucket) information
impl private::Sealed for LengthProcessingInfo<NUM_BUCKETS_NORMAL> where
    FuzzyHashBucketsInfo<NUM_BUCKETS_NORMAL>: FuzzyHashBucketMapper
{
}
impl ConstrainedLengthProcessingInfo for LengthProcessingInfo<NUM_BUCKETS_NORMAL>
where
    FuzzyHashBucketsInfo<NUM_BUCKETS_NORMAL>: FuzzyHashBucketMapper,
{
    const MIN: u32 = 50;
    const MIN_CONSERVATIVE: u32 = 128;
}
// Long (256 bucket) information
impl private::Sealed for LengthProcessingInfo<NUM_BUCKETS_LONG> where
    FuzzyHashBucketsInfo<NUM_BUCKETS_LONG>: FuzzyHashBucketMapper
{
}
impl ConstrainedLengthProcessingInfo for LengthProcessingInfo<NUM_BUCKETS_LONG>
where
    FuzzyHashBucketsInfo<NUM_BUCKETS_LONG>: FuzzyHashBucketMapper,
{
    const MIN: u32 = 50;
    const MIN_CONSERVATIVE: u32 = 128;
}

/// The first index of [`TOP_VALUE_BY_ENCODING`] which *exceeds*
/// 2<sup>n</sup> with the specified count of leading zeros.
///
/// It can be used to narrow the search space of [`TOP_VALUE_BY_ENCODING`]
/// by using the index `clz` as the top and the index `clz+1` as the bottom,
/// and using [`TOP_VALUE_BY_ENCODING`]`[bottom..top]` as the search space.
#[cfg(any(
    test,
    doc,
    any(
        target_arch = "x86",
        target_arch = "x86_64",
        target_arch = "arm",
        target_arch = "aarch64",
        all(
            any(target_arch = "riscv32", target_arch = "riscv64"),
            target_feature = "zbb"
        ),
        target_arch = "wasm32",
        target_arch = "wasm64"
    )
))]
const ENCODED_INDICES_BY_LEADING_ZEROS: [usize; 33] = {
    let mut array = [0; 33];
    let mut i = 0;
    while i < TOP_VALUE_BY_ENCODING.len() {
        array[TOP_VALUE_BY_ENCODING[i].leading_zeros() as usize] = i + 1;
        i += 1;
    }
    array
};

/// Denotes validity depending on the data length.
#[derive(Debug, Clone, Copy, PartialEq, Eq)]
pub enum DataLengthValidity {
    /// Too small to process (even in the default optimistic mode).
    TooSmall,
    /// Valid on the optimistic mode (default) but invalid
    /// (too small) on the conservative mode.
    ValidWhenOptimistic,
    /// Valid *also* on the conservative mode (i.e. valid on all modes).
    Valid,
    /// Too large to process.
    TooLarge,
}

/// Denotes processing mode depending on the input data length.
///
/// This type can be specified in following methods:
///
/// *   [`DataLengthValidity::is_err_on()`]
/// *   [`GeneratorOptions::length_processing_mode()`](crate::generate::GeneratorOptions::length_processing_mode())
#[derive(Debug, Clone, Copy, PartialEq, Eq, Default)]
pub enum DataLengthProcessingMode {
    /// The optimistic mode (the default on the official implementation).
    ///
    /// It allows processing small files knowing that some of them are not very
    /// useful for fuzzy comparison.
    #[default]
    Optimistic,
    /// The conservative mode.
    ///
    /// It was the default mode in the past official implementation.  While not
    /// always true, it generates statistically better fuzzy hashes if
    /// the generator accepts.
    Conservative,
}

impl DataLengthValidity {
    /// Gets the validity value depending on the input data length and
    /// the number of buckets.
    ///
    /// The `SIZE_BUCKETS` parameter shall be the one of the bucket size
    /// constants in [`tlsh::buckets`](crate::buckets).
    pub fn new<const SIZE_BUCKETS: usize>(len: u32) -> DataLengthValidity
    where
        FuzzyHashBucketsInfo<SIZE_BUCKETS>: FuzzyHashBucketMapper,
        LengthProcessingInfo<SIZE_BUCKETS>: ConstrainedLengthProcessingInfo,
    {
        if len < LengthProcessingInfo::<SIZE_BUCKETS>::MIN {
            DataLengthValidity::TooSmall
        } else if len < LengthProcessingInfo::<SIZE_BUCKETS>::MIN_CONSERVATIVE {
            DataLengthValidity::ValidWhenOptimistic
        } else if len <= LengthProcessingInfo::<SIZE_BUCKETS>::MAX {
            DataLengthValidity::Valid
        } else {
            DataLengthValidity::TooLarge
        }
    }

    /// Checks whether this validity value is a hard error
    /// (i.e. whether this is an error on all modes).
    pub fn is_err(&self) -> bool {
        matches!(
            *self,
            DataLengthValidity::TooSmall | DataLengthValidity::TooLarge
        )
    }

    /// Checks whether this validity value is an error
    /// on the specified processing mode.
    pub fn is_err_on(&self, mode: DataLengthProcessingMode) -> bool {
        match *self {
            DataLengthValidity::TooLarge | DataLengthValidity::TooSmall => true,
            DataLengthValidity::Valid => false,
            DataLengthValidity::ValidWhenOptimistic => {
                matches!(mode, DataLengthProcessingMode::Conservative)
            }
        }
    }
}

/// Approximated input data length encoded as 8-bits in a fuzzy hash.
///
/// On TLSH, it compresses a 32-bit input size to an approximated encoding of
/// 8-bits.  This enables to distinguish statistically similar files with
/// large differences in the size.
///
/// This struct can have a:
///
/// 1.  A valid encoding for a valid input size,
/// 2.  A "valid" encoding for an invalid input size
///     (only appears when the input is smaller than the TLSH's lower limit), or
/// 3.  An invalid encoding (does not correspond any of the 32-bit size).
///
/// This struct only handles the validness of its encoding.
/// So, the case 2 above is considered "valid" in this type.
#[derive(Debug, Clone, Copy, PartialEq, Eq)]
#[repr(transparent)]
pub struct FuzzyHashLengthEncoding {
    /// The raw (approximated) length encoding.
    lvalue: u8,
}
impl FuzzyHashLengthEncoding {
    /// The maximum distance between two length encodings.
    pub const MAX_DISTANCE: u32 = MAX_DISTANCE;

    /// Creates the object from the raw encoding.
    #[inline(always)]
    pub(crate) fn from_raw(lvalue: u8) -> Self {
        Self { lvalue }
    }

    /// Decode the object from a subset of
    /// the TLSH's hexadecimal representation.
    pub(crate) fn from_str_bytes(bytes: &[u8]) -> Result<Self, ParseError> {
        if bytes.len() != 2 {
            return Err(ParseError::InvalidStringLength);
        }
        decode_rev_1(bytes)
            .ok_or(ParseError::InvalidCharacter)
            .map(Self::from_raw)
    }

    /// Encode the 32-bit data length as rough 8-bit representation.
    pub fn new(len: u32) -> Option<Self> {
        if len == 0 {
            return Some(Self { lvalue: 0 }); // hard error (too small) but for consistency
        }
        if len > MAX {
            return None;
        }
        cfg_if::cfg_if! {
            // Note: "arm" assumes ARMv7+ (CLZ is first implemented in ARMv5T).
            // Note: On WASM, whether "i32.clz" is efficient depends on the
            //       implementation but it should be safe enough to assume that
            //       considering major CPUs used to run WebAssembly.
            if #[cfg(any(
                target_arch = "x86",
                target_arch = "x86_64",
                target_arch = "arm",
                target_arch = "aarch64",
                all(
                    any(target_arch = "riscv32", target_arch = "riscv64"),
                    target_feature = "zbb"
                ),
                target_arch = "wasm32",
                target_arch = "wasm64"
            ))] {
                let clz = len.leading_zeros() as usize;
                let bottom = ENCODED_INDICES_BY_LEADING_ZEROS[clz + 1];
                let top = ENCODED_INDICES_BY_LEADING_ZEROS[clz];
                optionally_unsafe! {
                    invariant!(bottom <= TOP_VALUE_BY_ENCODING.len());
                    invariant!(top <= TOP_VALUE_BY_ENCODING.len());
                    invariant!(bottom <= top);
                }
                Some(Self {
                    lvalue: match TOP_VALUE_BY_ENCODING[bottom..top].binary_search(&len) {
                        Ok(i) => bottom + i,
                        Err(i) => bottom + i,
                    } as u8,
                })
            }
            else {
                Some(Self {
                    lvalue: match TOP_VALUE_BY_ENCODING.as_slice().binary_search(&len) {
                        Ok(i) => i,
                        Err(i) => i,
                    } as u8,
                })
            }
        }
    }

    /// Returns the raw encoding.
    #[inline(always)]
    pub fn value(&self) -> u8 {
        self.lvalue
    }

    /// Returns whether the encoding is valid.
    ///
    /// Note that, if the encoding only appears when the input size is too
    /// small, it also returns [`true`] because the encoding itself is still
    /// valid.  On the other hand, if the encoding exceeds the upper limit, it
    /// will return [`false`] because it will not correspond to any of 32-bit
    /// input size.
    #[inline(always)]
    pub fn is_valid(&self) -> bool {
        (self.lvalue as usize) < ENCODED_VALUE_SIZE
    }

    /// Compare against another length encoding and
    /// return the distance between them.
    #[inline(always)]
    pub fn compare(&self, other: &FuzzyHashLengthEncoding) -> u32 {
        distance(self.lvalue, other.lvalue)
    }

    /// Decode the encoded 8-bit length approximation as an inclusive 32-bit
    /// input size range that will produce the given encoding.
    ///
    /// It will return [`None`] if there's no valid 32-bit size for given
    /// encoding.
    pub fn range(&self) -> Option<RangeInclusive<u32>> {
        if self.lvalue == 0 {
            return Some(0..=TOP_VALUE_BY_ENCODING[0]);
        }
        if self.lvalue as usize >= ENCODED_VALUE_SIZE {
            return None;
        }
        let bottom = TOP_VALUE_BY_ENCODING[self.lvalue as usize - 1] + 1;
        let top = TOP_VALUE_BY_ENCODING[self.lvalue as usize];
        Some(bottom..=top)
    }
}
impl TryFrom<u32> for FuzzyHashLengthEncoding {
    type Error = ParseError;

    fn try_from(len: u32) -> Result<Self, Self::Error> {
        Self::new(len).ok_or(ParseError::LengthIsTooLarge)
    }
}

/// Encode the 32-bit data length as rough 8-bit representation.
#[cfg(any(doc, test))]
#[cfg_attr(feature = "unstable", doc(cfg(all())))]
fn encode(len: u32) -> Option<u8> {
    FuzzyHashLengthEncoding::new(len).map(|x| x.lvalue)
}

/// The naïve implementation.
#[cfg(any(doc, test))]
#[cfg_attr(feature = "unstable", doc(cfg(all())))]
pub(crate) mod naive {
    use super::TOP_VALUE_BY_ENCODING;

    /// Encode the 32-bit data length as rough 8-bit representation.
    pub fn encode(len: u32) -> Option<u8> {
        if len == 0 {
            return Some(0); // hard error (too small) but for consistency
        }
        for (i, &top) in TOP_VALUE_BY_ENCODING.iter().enumerate() {
            if len <= top {
                return Some(i as u8);
            }
        }
        None
    }
}

mod tests;
