// SPDX-License-Identifier: Apache-2.0 OR MIT
// SPDX-FileCopyrightText: Copyright (C) 2024 Tsukasa OI <floss_ssdeep@irq.a4lg.com>.

//! Tests: [`crate::generate_easy`].

#![cfg(test)]

use super::{hash_buf, hash_buf_for};

use crate::generate::tests::{LOREM_IPSUM, LOREM_IPSUM_HASH_NORMAL};
use crate::hashes;

#[test]
fn example_hash_buf_for_custom() {
    type CustomTlsh = hashes::Short;
    let hash = hash_buf_for::<CustomTlsh>(b"Hello, World!").unwrap();
    assert_eq!(hash.to_string(), "T1E16004017D3551777571D55C005CC5");
}

#[test]
fn example_hash_buf_for_normal() {
    type CustomTlsh = hashes::Normal;
    let hash = hash_buf_for::<CustomTlsh>(LOREM_IPSUM).unwrap();
    assert_eq!(hash.to_string(), LOREM_IPSUM_HASH_NORMAL);
}

#[test]
fn example_hash_buf() {
    let hash = hash_buf(LOREM_IPSUM).unwrap();
    assert_eq!(hash.to_string(), LOREM_IPSUM_HASH_NORMAL);
}
