// SPDX-License-Identifier: Apache-2.0 OR MIT
// SPDX-FileCopyrightText: Copyright (C) 2024 Tsukasa OI <floss_ssdeep@irq.a4lg.com>

//! Comparison-related metrics and the configuration type.

pub(crate) mod dist_body;
pub(crate) mod dist_checksum;
pub(crate) mod dist_length;
pub(crate) mod dist_qratios;
pub(crate) mod utils;

/// Denotes the mode of comparison (between two fuzzy hashes).
///
/// For description of the parts, see [`FuzzyHashType`](crate::FuzzyHashType).
#[derive(Debug, Clone, Copy, PartialEq, Eq, Default)]
pub enum ComparisonConfiguration {
    /// The default mode.
    ///
    /// In this default mode, all checksum, length, Q ratio pair and body
    /// are compared to another.
    #[default]
    Default,
    /// The no-length distance mode.
    ///
    /// In this mode, all checksum, Q ratio pair and body (all *except* the
    /// length encoding) are compared to another.
    ///
    /// # Compatibility Note
    ///
    /// This is renamed from an erroneous name `NoDistance`.
    NoLength,
}

mod tests;
