// SPDX-License-Identifier: Apache-2.0 OR MIT
// SPDX-FileCopyrightText: Copyright (C) 2024 Tsukasa OI <floss_ssdeep@irq.a4lg.com>.

#![cfg(doc)]
#![doc = include_str!("cfg.md")]
