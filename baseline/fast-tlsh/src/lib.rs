// SPDX-License-Identifier: Apache-2.0 OR MIT
// SPDX-FileCopyrightText: Copyright (C) 2024 Tsukasa OI <floss_ssdeep@irq.a4lg.com>.

// Separate from README.md to use rustdoc-specific features in docs/readme.md.
#![doc = include_str!("_docs/readme.md")]
// no_std
#![cfg_attr(not(any(test, doc, feature = "std")), no_std)]
// Allow using internal features when use of Nightly Rust features are allowed.
#![cfg_attr(feature = "unstable", allow(internal_features))]
// Regular nightly features
#![cfg_attr(feature = "unstable", feature(doc_cfg))]
#![cfg_attr(feature = "unstable", feature(doc_auto_cfg))]
#![cfg_attr(feature = "unstable", feature(core_intrinsics))]
#![cfg_attr(feature = "unstable", feature(coverage_attribute))]
#![cfg_attr(feature = "unstable", feature(portable_simd))]
#![cfg_attr(
    all(feature = "unstable", target_arch = "arm"),
    feature(arm_target_feature)
)]
#![cfg_attr(
    all(feature = "unstable", target_arch = "arm"),
    feature(stdarch_arm_feature_detection)
)]
#![cfg_attr(
    all(feature = "unstable", target_arch = "arm"),
    feature(stdarch_arm_neon_intrinsics)
)]
// In the code maintenance mode, disallow all warnings.
#![cfg_attr(feature = "maint-code", deny(warnings))]
// Unsafe code is *only* allowed on enabling either arch-specific SIMD
// ("simd-per-arch") or "unsafe" features ("simd-per-arch" and "simd-portable"
// features only indicate those "implemented using SIMD inside this crate").
// If only arch-specific SIMD features are enabled,
// such code requires explicit allow.
#![cfg_attr(
    not(any(feature = "simd-per-arch", feature = "unsafe")),
    forbid(unsafe_code)
)]
#![cfg_attr(
    all(feature = "simd-per-arch", not(feature = "unsafe")),
    deny(unsafe_code)
)]
// Non-test code requires documents (including private items)
#![cfg_attr(not(test), warn(missing_docs))]
#![cfg_attr(not(test), warn(clippy::missing_docs_in_private_items))]
// Unless in the maintenance mode, allow unknown lints.
#![cfg_attr(not(feature = "maint-lints"), allow(unknown_lints))]
// Unless in the maintenance mode, allow old lint names.
#![cfg_attr(not(feature = "maint-lints"), allow(renamed_and_removed_lints))]
// Tests: allow unused unsafe blocks (invariant! does will not need unsafe
// on tests but others may need this macro).
#![cfg_attr(test, allow(unused_unsafe))]
// Tests: non-simplified boolean expressions should be allowed.
#![cfg_attr(test, allow(clippy::nonminimal_bool))]
// Tests: assertion on constants should be allowed.
#![cfg_attr(test, allow(clippy::assertions_on_constants))]
// Tests: redundant clones should be allowed.
#![cfg_attr(test, allow(clippy::redundant_clone))]

// alloc is required when the "alloc" feature is enabled or testing (including doctests).
#[cfg(any(feature = "alloc", test, doc))]
extern crate alloc;

pub mod _docs;
pub mod buckets;
mod compare;
mod compare_easy;
mod errors;
pub mod generate;
mod generate_easy;
mod generate_easy_std;
pub mod hash;
pub mod hashes;
mod intrinsics;
pub mod length;
mod macros;
mod params;
mod parse;
mod pearson;
#[cfg(fast_tlsh_verif)]
#[allow(missing_docs)]
#[allow(clippy::missing_docs_in_private_items)]
pub mod verif;

// Easy function re-exports
#[cfg(feature = "easy-functions")]
pub use compare_easy::{compare, compare_with};
#[cfg(feature = "easy-functions")]
pub use generate_easy::{hash_buf, hash_buf_for};
#[cfg(all(feature = "easy-functions", feature = "std"))]
pub use generate_easy_std::{hash_file, hash_file_for, hash_stream, hash_stream_for};

// Trait re-exports
pub use generate::public::GeneratorType;
pub use hash::public::FuzzyHashType;

// Type re-exports
pub use compare::ComparisonConfiguration;
pub use errors::{GeneratorError, GeneratorErrorCategory};
pub use errors::{OperationError, ParseError};
pub use generate::GeneratorOptions;
pub use hash::HexStringPrefix;
pub use length::DataLengthProcessingMode;

#[cfg(all(feature = "easy-functions", feature = "std"))]
pub use errors::GeneratorOrIOError;
#[cfg(feature = "easy-functions")]
pub use errors::{ParseErrorEither, ParseErrorSide};

/// The default fuzzy hash type.
pub type Tlsh = hashes::Normal;

/// The fuzzy hash generator with the default parameter.
pub type TlshGenerator = generate::Generator<Tlsh>;

/// The fuzzy hash generator with specified parameter
/// (or output fuzzy hash type).
///
/// The type parameter `T` must be either:
///
/// *   [`Tlsh`], the default (in this case, you'd better to use
///     [`TlshGenerator`]),
/// *   One of the types in [`hashes`] (each represents a fuzzy hash type
///     and its parameter at the same time) or
/// *   [`hash::FuzzyHash`] with valid parameters.
///
/// unless you have something pointing to these types above somewhere else.
///
/// # Example
///
/// ```
/// use tlsh::prelude::*;
///
/// // Initialize a generator for long fuzzy hash (with 256 buckets)
/// // with long (3-byte) checksum.
/// let mut generator = TlshGeneratorFor::<tlsh::hashes::LongWithLongChecksum>::new();
/// ```
pub type TlshGeneratorFor<T> = generate::Generator<T>;

/// The recommended set (prelude) to import.
///
/// It provides a subset of crate-root types, traits and type aliases
/// suitable for using this crate.  Because some methods require importing
/// certain traits, just importing this can be convenient (not to confuse
/// beginners, those traits are imported as `_`).
///
/// It (intentionally) excludes crate-root easy functions because
/// it's not a big cost to type `tlsh::`.
///
/// It also excludes [`tlsh::hashes`](crate::hashes) to avoid confusion.
pub mod prelude {
    pub use super::FuzzyHashType as _;
    pub use super::GeneratorType as _;

    pub use super::Tlsh;
    pub use super::{TlshGenerator, TlshGeneratorFor};
}

mod tests;
