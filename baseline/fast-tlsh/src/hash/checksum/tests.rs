// SPDX-License-Identifier: Apache-2.0 OR MIT
// SPDX-FileCopyrightText: Copyright (C) 2024 Tsukasa OI <floss_ssdeep@irq.a4lg.com>.

//! Tests: [`crate::hash::checksum`].

#![cfg(test)]

use super::inner::InnerChecksum;
use super::inner::OneByteChecksumChecker as OneByteChecksumCheckerTrait;
use super::{
    FuzzyHashChecksum, FuzzyHashChecksumData, OneByteChecksumChecker, CHECKSUM_SIZE_LONG,
    CHECKSUM_SIZE_NORMAL,
};

use crate::buckets::constrained::{FuzzyHashBucketMapper, FuzzyHashBucketsInfo};
use crate::buckets::{NUM_BUCKETS_LONG, NUM_BUCKETS_NORMAL, NUM_BUCKETS_SHORT};
use crate::errors::ParseError;

#[test]
fn one_byte_checksum_checker_48() {
    for value in u8::MIN..=u8::MAX {
        assert_eq!(
            OneByteChecksumChecker::<NUM_BUCKETS_SHORT>::is_valid(value),
            value <= NUM_BUCKETS_SHORT as u8
        );
    }
    // Test specific examples
    assert_eq!(NUM_BUCKETS_SHORT, 48);
    assert!(OneByteChecksumChecker::<NUM_BUCKETS_SHORT>::is_valid(48));
    assert!(!OneByteChecksumChecker::<NUM_BUCKETS_SHORT>::is_valid(49));
}

#[test]
fn one_byte_checksum_checker_256() {
    fn test_all_checksum_is_valid<const SIZE_BUCKETS: usize>()
    where
        FuzzyHashBucketsInfo<SIZE_BUCKETS>: FuzzyHashBucketMapper,
        OneByteChecksumChecker<SIZE_BUCKETS>: OneByteChecksumCheckerTrait,
    {
        for value in u8::MIN..=u8::MAX {
            assert!(OneByteChecksumChecker::<SIZE_BUCKETS>::is_valid(value));
        }
    }
    test_all_checksum_is_valid::<NUM_BUCKETS_NORMAL>();
    test_all_checksum_is_valid::<NUM_BUCKETS_LONG>();
}

#[test]
fn checksum_impls() {
    fn test<const SIZE_CKSUM: usize, const SIZE_BUCKETS: usize>()
    where
        FuzzyHashBucketsInfo<SIZE_BUCKETS>: FuzzyHashBucketMapper,
        FuzzyHashChecksumData<SIZE_CKSUM, SIZE_BUCKETS>: FuzzyHashChecksum,
    {
        let c = FuzzyHashChecksumData::<SIZE_CKSUM, SIZE_BUCKETS>::new();
        // Default data after initialization
        // (since `new()` is crate-private, Default trais is not implemented)
        assert!(c.data().iter().all(|&x| x == 0));
    }
    test::<CHECKSUM_SIZE_NORMAL, NUM_BUCKETS_SHORT>();
    test::<CHECKSUM_SIZE_NORMAL, NUM_BUCKETS_NORMAL>();
    test::<CHECKSUM_SIZE_NORMAL, NUM_BUCKETS_LONG>();
    test::<CHECKSUM_SIZE_LONG, NUM_BUCKETS_NORMAL>();
    test::<CHECKSUM_SIZE_LONG, NUM_BUCKETS_LONG>();
}

#[test]
fn checksum_validness_short_48() {
    for value in u8::MIN..=u8::MAX {
        let c =
            FuzzyHashChecksumData::<CHECKSUM_SIZE_NORMAL, NUM_BUCKETS_SHORT>::from_raw(&[value]);
        assert_eq!(c.is_valid(), value <= NUM_BUCKETS_SHORT as u8);
    }
}

#[test]
fn checksum_validness_short_256() {
    fn test<const SIZE_BUCKETS: usize>()
    where
        FuzzyHashBucketsInfo<SIZE_BUCKETS>: FuzzyHashBucketMapper,
        FuzzyHashChecksumData<CHECKSUM_SIZE_NORMAL, SIZE_BUCKETS>: FuzzyHashChecksum,
    {
        for value in u8::MIN..=u8::MAX {
            let c = FuzzyHashChecksumData::<CHECKSUM_SIZE_NORMAL, SIZE_BUCKETS>::from_raw(&[value]);
            assert!(c.is_valid());
        }
    }
    test::<NUM_BUCKETS_NORMAL>();
    test::<NUM_BUCKETS_LONG>();
}

#[test]
fn checksum_validness_long_256() {
    fn test_all<const SIZE_BUCKETS: usize>()
    where
        FuzzyHashBucketsInfo<SIZE_BUCKETS>: FuzzyHashBucketMapper,
        FuzzyHashChecksumData<CHECKSUM_SIZE_LONG, SIZE_BUCKETS>: FuzzyHashChecksum,
    {
        for b0 in u8::MIN..=u8::MAX {
            for b1 in u8::MIN..=u8::MAX {
                for b2 in u8::MIN..=u8::MAX {
                    let value = [b0, b1, b2];
                    let c =
                        FuzzyHashChecksumData::<CHECKSUM_SIZE_LONG, SIZE_BUCKETS>::from_raw(&value);
                    assert!(c.is_valid());
                }
            }
        }
    }
    test_all::<NUM_BUCKETS_NORMAL>();
    test_all::<NUM_BUCKETS_LONG>();
}

#[test]
fn checksum_from_str_bytes_short_examples() {
    fn test<const SIZE_BUCKETS: usize>()
    where
        FuzzyHashBucketsInfo<SIZE_BUCKETS>: FuzzyHashBucketMapper,
        FuzzyHashChecksumData<CHECKSUM_SIZE_NORMAL, SIZE_BUCKETS>: FuzzyHashChecksum,
    {
        let mut c: Result<FuzzyHashChecksumData<CHECKSUM_SIZE_NORMAL, SIZE_BUCKETS>, ParseError>;
        // Success cases (allows both lower case and upper case)
        c = FuzzyHashChecksumData::from_str_bytes(b"a1");
        assert!(c.is_ok());
        assert_eq!(c.unwrap().data()[0], 0x1a);
        c = FuzzyHashChecksumData::from_str_bytes(b"B1");
        assert!(c.is_ok());
        assert_eq!(c.unwrap().data()[0], 0x1b);
        // Failure due to invalid length
        c = FuzzyHashChecksumData::from_str_bytes(b"0");
        assert_eq!(c, Err(ParseError::InvalidStringLength));
        c = FuzzyHashChecksumData::from_str_bytes(b"000");
        assert_eq!(c, Err(ParseError::InvalidStringLength));
        // Failure due to an invalid character
        c = FuzzyHashChecksumData::from_str_bytes(b"g0");
        assert_eq!(c, Err(ParseError::InvalidCharacter));
        c = FuzzyHashChecksumData::from_str_bytes(b"0G");
        assert_eq!(c, Err(ParseError::InvalidCharacter));
    }
    test::<NUM_BUCKETS_SHORT>();
    test::<NUM_BUCKETS_NORMAL>();
    test::<NUM_BUCKETS_LONG>();
}

#[test]
fn checksum_from_str_bytes_long_examples() {
    fn test<const SIZE_BUCKETS: usize>()
    where
        FuzzyHashBucketsInfo<SIZE_BUCKETS>: FuzzyHashBucketMapper,
        FuzzyHashChecksumData<CHECKSUM_SIZE_LONG, SIZE_BUCKETS>: FuzzyHashChecksum,
    {
        let mut c: Result<FuzzyHashChecksumData<CHECKSUM_SIZE_LONG, SIZE_BUCKETS>, ParseError>;
        // Success cases (allows both lower case and upper case)
        c = FuzzyHashChecksumData::from_str_bytes(b"a1dc90");
        assert!(c.is_ok());
        assert_eq!(c.unwrap().data(), b"\x1a\xcd\x09");
        c = FuzzyHashChecksumData::from_str_bytes(b"A1DC90");
        assert!(c.is_ok());
        assert_eq!(c.unwrap().data(), b"\x1a\xcd\x09");
        // Failure due to invalid length
        c = FuzzyHashChecksumData::from_str_bytes(b"00");
        assert_eq!(c, Err(ParseError::InvalidStringLength));
        c = FuzzyHashChecksumData::from_str_bytes(b"0000");
        assert_eq!(c, Err(ParseError::InvalidStringLength));
        c = FuzzyHashChecksumData::from_str_bytes(b"0000000");
        assert_eq!(c, Err(ParseError::InvalidStringLength));
        // Failure due to an invalid character
        c = FuzzyHashChecksumData::from_str_bytes(b"g00000");
        assert_eq!(c, Err(ParseError::InvalidCharacter));
        c = FuzzyHashChecksumData::from_str_bytes(b"00000G");
        assert_eq!(c, Err(ParseError::InvalidCharacter));
    }
    test::<NUM_BUCKETS_NORMAL>();
    test::<NUM_BUCKETS_LONG>();
}

#[test]
fn checksum_compare_short_binary() {
    fn test<const SIZE_BUCKETS: usize>()
    where
        FuzzyHashBucketsInfo<SIZE_BUCKETS>: FuzzyHashBucketMapper,
        FuzzyHashChecksumData<CHECKSUM_SIZE_NORMAL, SIZE_BUCKETS>: FuzzyHashChecksum,
    {
        for &a0 in &[0, 1] {
            let a = [a0];
            let ca = FuzzyHashChecksumData::<CHECKSUM_SIZE_NORMAL, SIZE_BUCKETS>::from_raw(&a);
            for &b0 in &[0, 1] {
                let b = [b0];
                let cb = FuzzyHashChecksumData::from_raw(&b);
                let expected = (a0 ^ b0) as u32;
                assert_eq!(ca.compare(&cb), expected);
            }
        }
    }
    test::<NUM_BUCKETS_SHORT>();
    test::<NUM_BUCKETS_NORMAL>();
    test::<NUM_BUCKETS_LONG>();
}

#[test]
fn checksum_compare_long_binary() {
    fn test<const SIZE_BUCKETS: usize>()
    where
        FuzzyHashBucketsInfo<SIZE_BUCKETS>: FuzzyHashBucketMapper,
        FuzzyHashChecksumData<CHECKSUM_SIZE_LONG, SIZE_BUCKETS>: FuzzyHashChecksum,
    {
        for &a0 in &[0, 1] {
            for &a1 in &[0, 1] {
                for &a2 in &[0, 1] {
                    let a = [a0, a1, a2];
                    let ca =
                        FuzzyHashChecksumData::<CHECKSUM_SIZE_LONG, SIZE_BUCKETS>::from_raw(&a);
                    for &b0 in &[0, 1] {
                        for &b1 in &[0, 1] {
                            for &b2 in &[0, 1] {
                                let b = [b0, b1, b2];
                                let cb = FuzzyHashChecksumData::from_raw(&b);
                                let expected = ((a0 ^ b0) + (a1 ^ b1) + (a2 ^ b2)) as u32;
                                assert_eq!(ca.compare(&cb), expected);
                            }
                        }
                    }
                }
            }
        }
    }
    test::<NUM_BUCKETS_NORMAL>();
    test::<NUM_BUCKETS_LONG>();
}

#[test]
fn checksum_update_48_example() {
    // TLSH hash value: T1E16004017D3551777571D55C005CC5
    //                    ~~ checksum ("E1" == 0x1e)
    let mut state = FuzzyHashChecksumData::<CHECKSUM_SIZE_NORMAL, NUM_BUCKETS_SHORT>::new();
    for window in b"Hello, World!"[3..].windows(2) {
        state.update(window[1], window[0]);
    }
    assert_eq!(state.data(), &[0x1e]);
}

#[test]
fn checksum_update_256_example() {
    // If we ignore any errors, the TLSH hash value would be:
    // T14E60440000000000000000000C00000000000000000000000000000030000000000000
    //   ~~ checksum ("4E" == 0xe4)
    let mut state = FuzzyHashChecksumData::<CHECKSUM_SIZE_NORMAL, NUM_BUCKETS_NORMAL>::new();
    for window in b"Hello, World!"[3..].windows(2) {
        state.update(window[1], window[0]);
    }
    assert_eq!(state.data(), &[0xe4]);
}
