// SPDX-License-Identifier: Apache-2.0 OR MIT
// SPDX-FileCopyrightText: Copyright (C) 2024 Tsukasa OI <floss_ssdeep@irq.a4lg.com>.

//! The body part of the fuzzy hash.

use crate::buckets::{NUM_BUCKETS_LONG, NUM_BUCKETS_NORMAL, NUM_BUCKETS_SHORT};
use crate::compare::dist_body::{
    distance_12, distance_32, distance_64, MAX_DISTANCE_LONG, MAX_DISTANCE_NORMAL,
    MAX_DISTANCE_SHORT,
};
use crate::errors::ParseError;

#[cfg(not(feature = "opt-simd-parse-hex"))]
use crate::parse::hex_str::decode_array;

/// The body size of the short variant (with 48 effective buckets).
///
/// Because we need 2-bits body for each bucket, this is the quarter of
/// [the number of effective buckets](crate::buckets::NUM_BUCKETS_SHORT).
pub const BODY_SIZE_SHORT: usize = NUM_BUCKETS_SHORT / 4;

/// The body size of the normal variant (with 128 effective buckets).
///
/// Because we need 2-bits body for each bucket, this is the quarter of
/// [the number of effective buckets](crate::buckets::NUM_BUCKETS_NORMAL).
pub const BODY_SIZE_NORMAL: usize = NUM_BUCKETS_NORMAL / 4;

/// The body size of the long variant (with 256 effective buckets).
///
/// Because we need 2-bits body for each bucket, this is the quarter of
/// [the number of effective buckets](crate::buckets::NUM_BUCKETS_LONG).
pub const BODY_SIZE_LONG: usize = NUM_BUCKETS_LONG / 4;

/// The private part.
mod private {
    /// The sealed trait.
    pub trait Sealed {}
}

/// The trait representing the body part of the fuzzy hash.
pub trait FuzzyHashBody: private::Sealed {
    /// The number of buckets in the body.
    const NUM_BUCKETS: usize;
    /// The size of the body in bytes.
    const SIZE: usize;
    /// The maximum distance between two bodies on this configuration.
    const MAX_DISTANCE: u32;
    /// Retrieves the quartile value (`0b00..=0b11`) for specified bucket.
    ///
    /// # Safety
    ///
    /// The `index` argument must be less than [`NUM_BUCKETS`](Self::NUM_BUCKETS)
    /// or otherwise results in a panic.
    fn quartile(&self, index: usize) -> u8;
    /// Compare against another body and return the distance between them.
    fn compare(&self, other: &Self) -> u32;
}

/// The body part data of the fuzzy hash.
///
/// For the main functionalities, see [`FuzzyHashBody`] documentation.
#[repr(align(16))]
#[derive(Debug, Clone, Copy, PartialEq, Eq)]
pub struct FuzzyHashBodyData<const SIZE_BODY: usize> {
    /// The raw body data.
    data: [u8; SIZE_BODY],
}

impl<const SIZE_BODY: usize> FuzzyHashBodyData<SIZE_BODY> {
    /// Creates an object from the existing body.
    pub(crate) fn from_raw(data: [u8; SIZE_BODY]) -> Self {
        Self { data }
    }

    /// Decode the object from a subset of
    /// the TLSH's hexadecimal representation.
    #[inline]
    pub(crate) fn from_str_bytes(bytes: &[u8]) -> Result<Self, ParseError> {
        if bytes.len() != SIZE_BODY * 2 {
            return Err(ParseError::InvalidStringLength);
        }
        let mut data = [0u8; SIZE_BODY];
        cfg_if::cfg_if! {
            if #[cfg(feature = "opt-simd-parse-hex")] {
                let result =
                    hex_simd::decode(bytes, hex_simd::Out::from_slice(data.as_mut_slice())).is_ok();
            } else {
                let result = decode_array(&mut data, bytes);
            }
        }
        if result {
            Ok(Self { data })
        } else {
            Err(ParseError::InvalidCharacter)
        }
    }

    /// Returns the raw data corresponding the body part.
    #[inline(always)]
    pub fn data(&self) -> &[u8; SIZE_BODY] {
        &self.data
    }
}

// Short (48 bucket) body implementation
impl private::Sealed for FuzzyHashBodyData<BODY_SIZE_SHORT> {}
impl FuzzyHashBody for FuzzyHashBodyData<BODY_SIZE_SHORT> {
    const NUM_BUCKETS: usize = NUM_BUCKETS_SHORT;
    const SIZE: usize = BODY_SIZE_SHORT;
    const MAX_DISTANCE: u32 = MAX_DISTANCE_SHORT;
    #[inline(always)]
    fn quartile(&self, index: usize) -> u8 {
        assert!(index < Self::NUM_BUCKETS);
        (self.data[self.data.len() - 1 - index / 4] >> (2 * (index % 4))) & 0b11
    }
    #[inline(always)]
    fn compare(&self, other: &Self) -> u32 {
        distance_12(&self.data, &other.data)
    }
}

// Normal (128 bucket) body implementation
impl private::Sealed for FuzzyHashBodyData<BODY_SIZE_NORMAL> {}
impl FuzzyHashBody for FuzzyHashBodyData<BODY_SIZE_NORMAL> {
    const NUM_BUCKETS: usize = NUM_BUCKETS_NORMAL;
    const SIZE: usize = BODY_SIZE_NORMAL;
    const MAX_DISTANCE: u32 = MAX_DISTANCE_NORMAL;
    #[inline(always)]
    fn quartile(&self, index: usize) -> u8 {
        assert!(index < Self::NUM_BUCKETS);
        (self.data[self.data.len() - 1 - index / 4] >> (2 * (index % 4))) & 0b11
    }
    #[inline(always)]
    fn compare(&self, other: &Self) -> u32 {
        distance_32(&self.data, &other.data)
    }
}

// Long (256 bucket) body implementation
impl private::Sealed for FuzzyHashBodyData<BODY_SIZE_LONG> {}
impl FuzzyHashBody for FuzzyHashBodyData<BODY_SIZE_LONG> {
    const NUM_BUCKETS: usize = NUM_BUCKETS_LONG;
    const SIZE: usize = BODY_SIZE_LONG;
    const MAX_DISTANCE: u32 = MAX_DISTANCE_LONG;
    #[inline(always)]
    fn quartile(&self, index: usize) -> u8 {
        assert!(index < Self::NUM_BUCKETS);
        (self.data[self.data.len() - 1 - index / 4] >> (2 * (index % 4))) & 0b11
    }
    #[inline(always)]
    fn compare(&self, other: &Self) -> u32 {
        distance_64(&self.data, &other.data)
    }
}

mod tests;
