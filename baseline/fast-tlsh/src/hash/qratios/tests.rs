// SPDX-License-Identifier: Apache-2.0 OR MIT
// SPDX-FileCopyrightText: Copyright (C) 2024 Tsukasa OI <floss_ssdeep@irq.a4lg.com>.

//! Tests: [`crate::hash::qratios`].

#![cfg(test)]

use super::FuzzyHashQRatios;

use crate::errors::ParseError;

#[test]
fn qratio_pair() {
    for q2 in 0..16u8 {
        for q1 in 0..16u8 {
            let qratios = FuzzyHashQRatios::new(q1, q2);
            assert_eq!(qratios.q1ratio(), q1);
            assert_eq!(qratios.q2ratio(), q2);
        }
    }
}

#[test]
fn qratios_encoding() {
    for value in u8::MIN..=u8::MAX {
        let qratios = FuzzyHashQRatios::from_raw(value);
        // Encoding: low 4 bits is Q1 ratio.
        let q1 = value & 0x0f;
        let q2 = (value >> 4) & 0x0f;
        assert_eq!(qratios.value(), value);
        assert_eq!(qratios.q1ratio(), q1);
        assert_eq!(qratios.q2ratio(), q2);
    }
}

#[test]
fn qratio_from_str_bytes_fail_len() {
    const ZEROS: &[u8] = &[b'0'; 3];
    // Length 1: invalid length
    assert_eq!(
        FuzzyHashQRatios::from_str_bytes(&ZEROS[0..1]),
        Err(ParseError::InvalidStringLength)
    );
    // Length 2: parser runs
    assert_eq!(
        FuzzyHashQRatios::from_str_bytes(&ZEROS[0..2]),
        Ok(FuzzyHashQRatios::from_raw(0))
    );
    // Length 3: invalid length
    assert_eq!(
        FuzzyHashQRatios::from_str_bytes(&ZEROS[0..3]),
        Err(ParseError::InvalidStringLength)
    );
}

#[test]
fn qratio_from_str_bytes_endianness() {
    for value in u8::MIN..=u8::MAX {
        let s: String = format!("{value:02X}").chars().rev().collect();
        assert_eq!(
            FuzzyHashQRatios::from_str_bytes(s.as_bytes()),
            Ok(FuzzyHashQRatios::from_raw(value))
        );
    }
}

#[test]
#[should_panic]
fn qratios_init_fail_q1() {
    // 16 is an invalid value for Q ratio.
    let _qratios = FuzzyHashQRatios::new(16, 0);
}

#[test]
#[should_panic]
fn qratios_init_fail_q2() {
    // 16 is an invalid value for Q ratio.
    let _qratios = FuzzyHashQRatios::new(0, 16);
}
