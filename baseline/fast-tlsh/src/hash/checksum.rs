// SPDX-License-Identifier: Apache-2.0 OR MIT
// SPDX-FileCopyrightText: Copyright (C) 2024 Tsukasa OI <floss_ssdeep@irq.a4lg.com>.

//! The checksum part of the fuzzy hash.

use crate::buckets::constrained::{
    FuzzyHashBucketMapper, FuzzyHashBucketsInfo, LongFuzzyHashBucketMapper,
};
use crate::buckets::{NUM_BUCKETS_LONG, NUM_BUCKETS_NORMAL, NUM_BUCKETS_SHORT};
use crate::compare::dist_checksum::{distance_1, distance_3};
use crate::errors::ParseError;
use crate::parse::hex_str::decode_rev_array;
use crate::pearson::tlsh_b_mapping_256;

/// The length of the normal (1-byte) checksum.
pub const CHECKSUM_SIZE_NORMAL: usize = 1;
/// The length of the long (3-byte) checksum.
pub const CHECKSUM_SIZE_LONG: usize = 3;

/// The private part.
pub(crate) mod private {
    /// The sealed trait.
    pub trait Sealed {}
}

/// The inner part.
pub(crate) mod inner {
    /// The trait representing "updating" behavior of the checksum.
    ///
    /// From the outside, only "read-only" part is public and "updating" part
    /// should be kept private in this crate.
    pub trait InnerChecksum: super::private::Sealed {
        /// Update the checksum by the last two bytes in the update window.
        fn update(&mut self, curr: u8, prev: u8);
    }

    /// The trait to provide one byte checksum validness checker.
    pub trait OneByteChecksumChecker: super::private::Sealed {
        /// Returns whether the given checksum value is valid.
        ///
        /// In the default implementation, it is always [`true`] because
        /// all values are valid.
        #[allow(unused_variables)]
        fn is_valid(checksum: u8) -> bool {
            true
        }
    }
}

/// Implementation provider for [`inner::OneByteChecksumChecker`].
struct OneByteChecksumChecker<const SIZE_BUCKETS: usize>
where
    FuzzyHashBucketsInfo<SIZE_BUCKETS>: FuzzyHashBucketMapper;

impl private::Sealed for OneByteChecksumChecker<NUM_BUCKETS_SHORT> {}
impl inner::OneByteChecksumChecker for OneByteChecksumChecker<NUM_BUCKETS_SHORT> {
    /// Returns whether the given checksum value is valid.
    ///
    /// In the 48 bucket variant, it checks whether the value is
    /// **equal to or less than** [the number of buckets](NUM_BUCKETS_SHORT).
    fn is_valid(checksum: u8) -> bool {
        checksum <= NUM_BUCKETS_SHORT as u8
    }
}
impl private::Sealed for OneByteChecksumChecker<NUM_BUCKETS_NORMAL> {}
impl inner::OneByteChecksumChecker for OneByteChecksumChecker<NUM_BUCKETS_NORMAL> {}
impl private::Sealed for OneByteChecksumChecker<NUM_BUCKETS_LONG> {}
impl inner::OneByteChecksumChecker for OneByteChecksumChecker<NUM_BUCKETS_LONG> {}

/// The trait representing the checksum part of the fuzzy hash.
///
/// For the background of configurations, see [`FuzzyHashChecksumData`]
/// documentation.
pub trait FuzzyHashChecksum: inner::InnerChecksum {
    /// The size of the checksum.
    const SIZE: usize;
    /// The maximum distance between two checksums on this configuration.
    const MAX_DISTANCE: u32;
    /// Check whether the given checksum has a valid value.
    fn is_valid(&self) -> bool;
    /// Compare against another checksum and return the distance between them.
    fn compare(&self, other: &Self) -> u32;
}

/// The checksum part data of a fuzzy hash.
///
/// Note that, this is also parameterized by the number of buckets
/// (`SIZE_BUCKETS`) because, from the generator perspective,
/// it depends on the number of buckets.
///
/// This type supports following configurations:
///
/// *   1-byte checksum (on 48, 128, 256 bucket variants)
/// *   3-byte checksum (on 128, 256 bucket variants)
///
/// For the main functionalities except [`data()`](Self::data()),
/// see [`FuzzyHashChecksum`] documentation.
#[derive(Debug, Clone, Copy, PartialEq, Eq)]
#[repr(transparent)]
pub struct FuzzyHashChecksumData<const SIZE_CKSUM: usize, const SIZE_BUCKETS: usize>
where
    FuzzyHashBucketsInfo<SIZE_BUCKETS>: FuzzyHashBucketMapper,
{
    /// The raw checksum.
    data: [u8; SIZE_CKSUM],
}

impl<const SIZE_CKSUM: usize, const SIZE_BUCKETS: usize>
    FuzzyHashChecksumData<SIZE_CKSUM, SIZE_BUCKETS>
where
    FuzzyHashBucketsInfo<SIZE_BUCKETS>: FuzzyHashBucketMapper,
{
    /// Initializes the checksum object with the initial state.
    pub(crate) fn new() -> Self {
        Self {
            data: [0; SIZE_CKSUM],
        }
    }

    /// Creates the checksum object from the raw data.
    pub(crate) fn from_raw(data: &[u8; SIZE_CKSUM]) -> Self {
        Self { data: *data }
    }

    /// Decode the object from a subset of
    /// the TLSH's hexadecimal representation.
    #[inline]
    pub(crate) fn from_str_bytes(bytes: &[u8]) -> Result<Self, ParseError> {
        if bytes.len() != SIZE_CKSUM * 2 {
            return Err(ParseError::InvalidStringLength);
        }
        let mut data = [0u8; SIZE_CKSUM];
        if decode_rev_array(&mut data, bytes) {
            Ok(Self { data })
        } else {
            Err(ParseError::InvalidCharacter)
        }
    }

    /// Returns the reference of raw checksum data.
    #[inline(always)]
    pub fn data(&self) -> &[u8; SIZE_CKSUM] {
        &self.data
    }

    /// Clears the checksum.
    #[inline]
    pub(crate) fn clear(&mut self) {
        self.data.fill(0);
    }
}

// Normal variant (1-byte checksum)
impl<const SIZE_BUCKETS: usize> private::Sealed
    for FuzzyHashChecksumData<CHECKSUM_SIZE_NORMAL, SIZE_BUCKETS>
where
    FuzzyHashBucketsInfo<SIZE_BUCKETS>: FuzzyHashBucketMapper,
{
}
impl<const SIZE_BUCKETS: usize> inner::InnerChecksum
    for FuzzyHashChecksumData<CHECKSUM_SIZE_NORMAL, SIZE_BUCKETS>
where
    FuzzyHashBucketsInfo<SIZE_BUCKETS>: FuzzyHashBucketMapper,
{
    #[inline(always)]
    fn update(&mut self, curr: u8, prev: u8) {
        self.data[0] = FuzzyHashBucketsInfo::<SIZE_BUCKETS>::b_mapping(0, curr, prev, self.data[0]);
    }
}
impl<const SIZE_BUCKETS: usize> FuzzyHashChecksum
    for FuzzyHashChecksumData<CHECKSUM_SIZE_NORMAL, SIZE_BUCKETS>
where
    FuzzyHashBucketsInfo<SIZE_BUCKETS>: FuzzyHashBucketMapper,
    OneByteChecksumChecker<SIZE_BUCKETS>: inner::OneByteChecksumChecker,
{
    const SIZE: usize = CHECKSUM_SIZE_NORMAL;
    const MAX_DISTANCE: u32 = CHECKSUM_SIZE_NORMAL as u32;
    fn is_valid(&self) -> bool {
        use inner::OneByteChecksumChecker as _;
        OneByteChecksumChecker::<SIZE_BUCKETS>::is_valid(self.data[0])
    }
    #[inline(always)]
    fn compare(&self, other: &Self) -> u32 {
        distance_1(self.data, other.data)
    }
}

// Long variant (3-byte checksum)
impl<const SIZE_BUCKETS: usize> private::Sealed
    for FuzzyHashChecksumData<CHECKSUM_SIZE_LONG, SIZE_BUCKETS>
where
    FuzzyHashBucketsInfo<SIZE_BUCKETS>: LongFuzzyHashBucketMapper,
{
}
impl<const SIZE_BUCKETS: usize> inner::InnerChecksum
    for FuzzyHashChecksumData<CHECKSUM_SIZE_LONG, SIZE_BUCKETS>
where
    FuzzyHashBucketsInfo<SIZE_BUCKETS>: LongFuzzyHashBucketMapper,
{
    #[inline(always)]
    fn update(&mut self, curr: u8, prev: u8) {
        self.data[0] = FuzzyHashBucketsInfo::<SIZE_BUCKETS>::b_mapping(0, curr, prev, self.data[0]);
        self.data[1] = tlsh_b_mapping_256(self.data[0], curr, prev, self.data[1]);
        self.data[2] = tlsh_b_mapping_256(self.data[1], curr, prev, self.data[2]);
    }
}
impl<const SIZE_BUCKETS: usize> FuzzyHashChecksum
    for FuzzyHashChecksumData<CHECKSUM_SIZE_LONG, SIZE_BUCKETS>
where
    FuzzyHashBucketsInfo<SIZE_BUCKETS>: LongFuzzyHashBucketMapper,
{
    const SIZE: usize = CHECKSUM_SIZE_LONG;
    const MAX_DISTANCE: u32 = CHECKSUM_SIZE_LONG as u32;
    #[inline(always)]
    fn is_valid(&self) -> bool {
        true
    }
    #[inline(always)]
    fn compare(&self, other: &Self) -> u32 {
        distance_3(self.data, other.data)
    }
}

mod tests;
