// SPDX-License-Identifier: Apache-2.0 OR MIT
// SPDX-FileCopyrightText: Copyright (C) 2024 Tsukasa OI <floss_ssdeep@irq.a4lg.com>.

//! Tests: [`crate::hash::body`].

#![cfg(test)]

use super::{FuzzyHashBody, FuzzyHashBodyData, BODY_SIZE_LONG, BODY_SIZE_NORMAL, BODY_SIZE_SHORT};

use crate::compare::dist_body::naive::distance_dibits;
use crate::errors::ParseError;

#[test]
fn prerequisites() {
    // Test body sizes directly with known constants.
    static_assertions::const_assert_eq!(BODY_SIZE_SHORT, 12);
    static_assertions::const_assert_eq!(BODY_SIZE_NORMAL, 32);
    static_assertions::const_assert_eq!(BODY_SIZE_LONG, 64);
}

#[test]
fn params() {
    fn test<const SIZE_BODY: usize>()
    where
        FuzzyHashBodyData<SIZE_BODY>: FuzzyHashBody,
    {
        assert_eq!(SIZE_BODY * 4, FuzzyHashBodyData::<SIZE_BODY>::NUM_BUCKETS);
    }
    test::<BODY_SIZE_SHORT>();
    test::<BODY_SIZE_NORMAL>();
    test::<BODY_SIZE_LONG>();
}

/*
    Upper values:
        FF: 11 11 11 11
        AA: 10 10 10 10
        55: 01 01 01 01
        00: 00 00 00 00
            3<--------0
    Lower value:
        E4: 11 10 01 00
            3<--------0
*/
const HEX_U_S: &[u8] = b"FFFFFFAAAAAA555555000000";
const DATA_U_S: &[u8] = b"\xff\xff\xff\xaa\xaa\xaa\x55\x55\x55\x00\x00\x00";
const HEX_L_S: &[u8] = b"E4E4E4E4E4E4E4E4E4E4E4E4";
const DATA_L_S: &[u8] = [0xe4; 12].as_slice();
const HEX_U_M: &[u8] = b"\
    FFFFFFFFFFFFFFFFAAAAAAAAAAAAAAAA\
    55555555555555550000000000000000";
const DATA_U_M: &[u8] = b"\
    \xff\xff\xff\xff\xff\xff\xff\xff\
    \xaa\xaa\xaa\xaa\xaa\xaa\xaa\xaa\
    \x55\x55\x55\x55\x55\x55\x55\x55\
    \x00\x00\x00\x00\x00\x00\x00\x00";
const HEX_L_M: &[u8] = b"\
    E4E4E4E4E4E4E4E4E4E4E4E4E4E4E4E4\
    E4E4E4E4E4E4E4E4E4E4E4E4E4E4E4E4";
const DATA_L_M: &[u8] = [0xe4; 32].as_slice();
const HEX_U_L: &[u8] = b"\
    FFFFFFFFFFFFFFFFFFFFFFFFFFFFFFFF\
    AAAAAAAAAAAAAAAAAAAAAAAAAAAAAAAA\
    55555555555555555555555555555555\
    00000000000000000000000000000000";
const DATA_U_L: &[u8] = b"\
    \xff\xff\xff\xff\xff\xff\xff\xff\xff\xff\xff\xff\xff\xff\xff\xff\
    \xaa\xaa\xaa\xaa\xaa\xaa\xaa\xaa\xaa\xaa\xaa\xaa\xaa\xaa\xaa\xaa\
    \x55\x55\x55\x55\x55\x55\x55\x55\x55\x55\x55\x55\x55\x55\x55\x55\
    \x00\x00\x00\x00\x00\x00\x00\x00\x00\x00\x00\x00\x00\x00\x00\x00";
const HEX_L_L: &[u8] = b"\
    E4E4E4E4E4E4E4E4E4E4E4E4E4E4E4E4\
    E4E4E4E4E4E4E4E4E4E4E4E4E4E4E4E4\
    E4E4E4E4E4E4E4E4E4E4E4E4E4E4E4E4\
    E4E4E4E4E4E4E4E4E4E4E4E4E4E4E4E4";
const DATA_L_L: &[u8] = [0xe4; 64].as_slice();

// TLSH's hexadecimal representation matches to the
// "plain" representation of bytes.
const HEX_RANDOM_S: &[u8] = b"801B923370C0C87B40118C7C";
const DATA_RANDOM_S: &[u8] = b"\
    \x80\x1b\x92\x33\x70\xc0\xc8\x7b\x40\x11\x8c\x7c";
const HEX_RANDOM_M: &[u8] = b"\
    CE30057ED4508B7ADFB06693009D7BA6\
    D027E02415DE610E24E1F9FEE805316F";
const DATA_RANDOM_M: &[u8] = b"\
    \xce\x30\x05\x7e\xd4\x50\x8b\x7a\xdf\xb0\x66\x93\x00\x9d\x7b\xa6\
    \xd0\x27\xe0\x24\x15\xde\x61\x0e\x24\xe1\xf9\xfe\xe8\x05\x31\x6f";
const HEX_RANDOM_L: &[u8] = b"\
    8B0DBA1D693E524CFC416D44A73BE0C4\
    AA3D5F5E90BA979B530EE30B1528FC9B\
    47055A91C2086A0292FB2C1F6B05936D\
    F3FA6222845C9FA740D8E3A6B42986E8";
const DATA_RANDOM_L: &[u8] = b"\
    \x8b\x0d\xba\x1d\x69\x3e\x52\x4c\xfc\x41\x6d\x44\xa7\x3b\xe0\xc4\
    \xaa\x3d\x5f\x5e\x90\xba\x97\x9b\x53\x0e\xe3\x0b\x15\x28\xfc\x9b\
    \x47\x05\x5a\x91\xc2\x08\x6a\x02\x92\xfb\x2c\x1f\x6b\x05\x93\x6d\
    \xf3\xfa\x62\x22\x84\x5c\x9f\xa7\x40\xd8\xe3\xa6\xb4\x29\x86\xe8";

#[test]
fn from_raw_ordering() {
    fn test<const SIZE_BODY: usize>(data_u: &[u8], data_l: &[u8])
    where
        FuzzyHashBodyData<SIZE_BODY>: FuzzyHashBody,
    {
        let body = FuzzyHashBodyData::<SIZE_BODY>::from_raw(
            core::convert::TryInto::<[u8; SIZE_BODY]>::try_into(data_u).unwrap(),
        );
        for index in 0..SIZE_BODY {
            let q = body.quartile(index);
            // Low value comes first.
            let expected = (index / SIZE_BODY) as u8;
            assert_eq!(q, expected);
        }
        let body = FuzzyHashBodyData::<SIZE_BODY>::from_raw(
            core::convert::TryInto::<[u8; SIZE_BODY]>::try_into(data_l).unwrap(),
        );
        for index in 0..SIZE_BODY {
            let q = body.quartile(index);
            // Low value in the lower bits of each byte.
            let expected = (index % 4) as u8;
            assert_eq!(q, expected);
        }
    }
    test::<BODY_SIZE_SHORT>(DATA_U_S, DATA_L_S);
    test::<BODY_SIZE_NORMAL>(DATA_U_M, DATA_L_M);
    test::<BODY_SIZE_LONG>(DATA_U_L, DATA_L_L);
}

#[test]
fn from_str_bytes_equality() {
    fn test<const SIZE_BODY: usize>(input: &[u8], input_hex: &[u8])
    where
        FuzzyHashBodyData<SIZE_BODY>: FuzzyHashBody,
    {
        let body1 = FuzzyHashBodyData::<SIZE_BODY>::from_raw(
            core::convert::TryInto::<[u8; SIZE_BODY]>::try_into(input).unwrap(),
        );
        let body2 = FuzzyHashBodyData::<SIZE_BODY>::from_str_bytes(input_hex).unwrap();
        assert_eq!(body1, body2);
    }
    test::<BODY_SIZE_SHORT>(DATA_U_S, HEX_U_S);
    test::<BODY_SIZE_SHORT>(DATA_L_S, HEX_L_S);
    test::<BODY_SIZE_SHORT>(DATA_RANDOM_S, HEX_RANDOM_S);
    test::<BODY_SIZE_NORMAL>(DATA_U_M, HEX_U_M);
    test::<BODY_SIZE_NORMAL>(DATA_L_M, HEX_L_M);
    test::<BODY_SIZE_NORMAL>(DATA_RANDOM_M, HEX_RANDOM_M);
    test::<BODY_SIZE_LONG>(DATA_U_L, HEX_U_L);
    test::<BODY_SIZE_LONG>(DATA_L_L, HEX_L_L);
    test::<BODY_SIZE_LONG>(DATA_RANDOM_L, HEX_RANDOM_L);
}

#[test]
fn from_str_bytes_errors() {
    fn test<const SIZE_BODY: usize>() {
        let buffer = "aa".repeat(SIZE_BODY - 1); // insufficient size
        let result = FuzzyHashBodyData::<SIZE_BODY>::from_str_bytes(buffer.as_bytes());
        assert_eq!(result, Err(ParseError::InvalidStringLength));
        let buffer = "aa".repeat(SIZE_BODY + 1); // excess size
        let result = FuzzyHashBodyData::<SIZE_BODY>::from_str_bytes(buffer.as_bytes());
        assert_eq!(result, Err(ParseError::InvalidStringLength));
        let buffer = "@@".repeat(SIZE_BODY); // with invalid character
        let result = FuzzyHashBodyData::<SIZE_BODY>::from_str_bytes(buffer.as_bytes());
        assert_eq!(result, Err(ParseError::InvalidCharacter));
        let buffer = "aa".repeat(SIZE_BODY); // with invalid character
        let result = FuzzyHashBodyData::<SIZE_BODY>::from_str_bytes(buffer.as_bytes());
        assert!(result.is_ok());
    }
    test::<BODY_SIZE_SHORT>();
    test::<BODY_SIZE_NORMAL>();
    test::<BODY_SIZE_LONG>();
}

#[test]
fn compare_dibits_single() {
    fn test<const SIZE_BODY: usize>()
    where
        FuzzyHashBodyData<SIZE_BODY>: FuzzyHashBody,
    {
        for index in 0..FuzzyHashBodyData::<SIZE_BODY>::NUM_BUCKETS {
            for a in 0..4 {
                let mut body_a = FuzzyHashBodyData::<SIZE_BODY>::from_raw([0; SIZE_BODY]);
                body_a.data[SIZE_BODY - 1 - index / 4] |= a << (2 * (index % 4));
                let body_a = body_a;
                for b in 0..4 {
                    let mut body_b = FuzzyHashBodyData::<SIZE_BODY>::from_raw([0; SIZE_BODY]);
                    body_b.data[SIZE_BODY - 1 - index / 4] |= b << (2 * (index % 4));
                    let body_b = body_b;
                    let expected = distance_dibits(a, b);
                    assert_eq!(body_a.compare(&body_b), expected);
                }
            }
        }
    }
    test::<BODY_SIZE_SHORT>();
    test::<BODY_SIZE_NORMAL>();
    test::<BODY_SIZE_LONG>();
}

#[test]
fn compare_dibits_all() {
    fn test<const SIZE_BODY: usize>()
    where
        FuzzyHashBodyData<SIZE_BODY>: FuzzyHashBody,
    {
        for a in 0..4 {
            let value_a = (0..4).fold(0u8, |x, _| (x << 2) | a);
            let body_a = FuzzyHashBodyData::from_raw([value_a; SIZE_BODY]);
            for b in 0..4 {
                let value_b = (0..4).fold(0u8, |x, _| (x << 2) | b);
                let body_b = FuzzyHashBodyData::from_raw([value_b; SIZE_BODY]);
                let expected =
                    distance_dibits(a, b) * FuzzyHashBodyData::<SIZE_BODY>::NUM_BUCKETS as u32;
                assert_eq!(body_a.compare(&body_b), expected);
            }
        }
    }
    test::<BODY_SIZE_SHORT>();
    test::<BODY_SIZE_NORMAL>();
    test::<BODY_SIZE_LONG>();
}
