// SPDX-License-Identifier: Apache-2.0 OR MIT
// SPDX-FileCopyrightText: Copyright (C) 2024 Tsukasa OI <floss_ssdeep@irq.a4lg.com>.

//! Tests: [`crate::hash`].

#![cfg(test)]

use super::{ComparisonConfiguration, HexStringPrefix};

use core::str::FromStr;

use crate::buckets::NUM_BUCKETS_SHORT;
use crate::errors::{OperationError, ParseError};
use crate::hashes;
use crate::length::ENCODED_VALUE_SIZE;
use crate::FuzzyHashType;

#[test]
fn hex_string_prefix_default() {
    // Check its default value.
    assert_eq!(
        <HexStringPrefix as Default>::default(),
        HexStringPrefix::WithVersion
    );
}

#[test]
fn comparison_configuration_default() {
    // Check its default value.
    assert_eq!(
        <ComparisonConfiguration as Default>::default(),
        ComparisonConfiguration::Default
    );
}

#[test]
fn from_and_to_str() {
    const HASH_STR: &str = "T1E16004017D3551777571D55C005CC5";
    type CustomTlsh = hashes::Short;
    let str = CustomTlsh::from_str(HASH_STR).unwrap().to_string();
    assert_eq!(str.as_str(), HASH_STR);
}

#[test]
fn from_str_prefix() {
    const HASH_STR_0: &str = "E16004017D3551777571D55C005CC5";
    const HASH_STR_1: &str = "T1E16004017D3551777571D55C005CC5";
    type CustomTlsh = hashes::Short;
    // Auto detection
    let hash0 = CustomTlsh::from_str_with(HASH_STR_0, None);
    let hash1 = CustomTlsh::from_str_with(HASH_STR_1, None);
    let hash = hash0;
    assert!(hash.is_ok());
    assert_eq!(hash0, hash1);
    // Explicit prefix
    let hash0 = CustomTlsh::from_str_with(HASH_STR_0, Some(HexStringPrefix::Empty));
    let hash1 = CustomTlsh::from_str_with(HASH_STR_1, Some(HexStringPrefix::WithVersion));
    assert_eq!(hash, hash0);
    assert_eq!(hash, hash1);
    // Explicit prefix (wrong mode)
    let hash0 = CustomTlsh::from_str_with(HASH_STR_0, Some(HexStringPrefix::WithVersion));
    let hash1 = CustomTlsh::from_str_with(HASH_STR_1, Some(HexStringPrefix::Empty));
    assert_eq!(hash0, Err(ParseError::InvalidStringLength));
    assert_eq!(hash1, Err(ParseError::InvalidStringLength));
}

#[test]
fn from_str_other_errors() {
    type CustomTlsh = hashes::Short;
    // Empty string (does not match to valid string length)
    assert_eq!(
        CustomTlsh::from_str(""),
        Err(ParseError::InvalidStringLength)
    );
    // TNULL (does not match to valid string length)
    assert_eq!(
        CustomTlsh::from_str("TNULL"),
        Err(ParseError::InvalidStringLength)
    );
    // Invalid prefix
    assert_eq!(
        CustomTlsh::from_str("T2E16004017D3551777571D55C005CC5"),
        Err(ParseError::InvalidPrefix)
    );
    // Invalid checksum ('@' is not valid)
    assert_eq!(
        CustomTlsh::from_str("T1E@6004017D3551777571D55C005CC5"),
        Err(ParseError::InvalidCharacter)
    );
    // Invalid length ('@' is not valid)
    assert_eq!(
        CustomTlsh::from_str("T1E16@04017D3551777571D55C005CC5"),
        Err(ParseError::InvalidCharacter)
    );
    // Invalid Q ratios ('@' is not valid)
    assert_eq!(
        CustomTlsh::from_str("T1E1600@017D3551777571D55C005CC5"),
        Err(ParseError::InvalidCharacter)
    );
    // Invalid body ('@' is not valid)
    assert_eq!(
        CustomTlsh::from_str("T1E16004@17D3551777571D55C005CC5"),
        Err(ParseError::InvalidCharacter)
    );
}

#[test]
fn try_from_bytes() {
    type CustomTlsh = hashes::Short;
    // Reference data
    let reference = CustomTlsh::from_str("T1E16004017D3551777571D55C005CC5");
    assert!(reference.is_ok());
    assert_eq!(
        CustomTlsh::try_from(b"\x1e\x06\x40\x01\x7d\x35\x51\x77\x75\x71\xd5\x5c\x00\x5c\xc5"),
        reference
    );
    assert_eq!(
        CustomTlsh::try_from(
            b"\x1e\x06\x40\x01\x7d\x35\x51\x77\x75\x71\xd5\x5c\x00\x5c\xc5" as &[u8]
        ),
        reference
    );
    // Empty data (wrong length)
    assert_eq!(
        CustomTlsh::try_from(b"" as &[u8]),
        Err(ParseError::InvalidStringLength)
    );
}

#[test]
fn strict_parser_str_length() {
    assert_eq!(ENCODED_VALUE_SIZE, 0xaa);
    const STR1: &str = "T14D9ADDD869983B33E27B4F308C459ED4F77FE24A4BC42C52CF1C9F046D5945AEA69888";
    const STR2: &str = "T14DAADDD869983B33E27B4F308C459ED4F77FE24A4BC42C52CF1C9F046D5945AEA69888";
    // Length encoding: 0xa9 (the maximum valid encoding)
    let result = hashes::Normal::from_str(STR1);
    assert!(result.is_ok());
    // Length encoding: 0xaa (invalid encoding)
    let result = hashes::Normal::from_str(STR2);
    cfg_if::cfg_if! {
        if #[cfg(feature = "strict-parser")] {
            assert_eq!(result, Err(ParseError::LengthIsTooLarge));
        } else {
            assert!(result.is_ok()); // Accepted by default
        }
    }
}

#[test]
fn strict_parser_str_checksum() {
    assert_eq!(NUM_BUCKETS_SHORT, 0x30);
    const STR1: &str = "T103D0BA38361825F4FA6D0B575C1CB5";
    const STR2: &str = "T113D0BA38361825F4FA6D0B575C1CB5";
    // Checksum: 0x30 (the maximum valid value)
    let result = hashes::Short::from_str(STR1);
    assert!(result.is_ok());
    // Checksum: 0x31 (invalid checksum)
    let result = hashes::Short::from_str(STR2);
    cfg_if::cfg_if! {
        if #[cfg(feature = "strict-parser")] {
            assert_eq!(result, Err(ParseError::InvalidChecksum));
        } else {
            assert!(result.is_ok()); // Accepted by default
        }
    }
}

#[test]
fn strict_parser_bytes_length() {
    // Corresponds: strict_parser_str_length
    assert_eq!(ENCODED_VALUE_SIZE, 0xAA);
    const BYTES1: &[u8] = b"\xD4\xA9\xDD\
        \xD8\x69\x98\x3B\x33\xE2\x7B\x4F\x30\x8C\x45\x9E\xD4\xF7\x7F\xE2\x4A\x4B\xC4\x2C\x52\xCF\x1C\x9F\x04\x6D\x59\x45\xAE\xA6\x98\x88";
    const BYTES2: &[u8] = b"\xD4\xAA\xDD\
        \xD8\x69\x98\x3B\x33\xE2\x7B\x4F\x30\x8C\x45\x9E\xD4\xF7\x7F\xE2\x4A\x4B\xC4\x2C\x52\xCF\x1C\x9F\x04\x6D\x59\x45\xAE\xA6\x98\x88";
    // Length encoding: 0xa9 (the maximum valid encoding)
    let result = hashes::Normal::try_from(BYTES1);
    assert!(result.is_ok());
    // Length encoding: 0xaa (invalid encoding)
    let result = hashes::Normal::try_from(BYTES2);
    cfg_if::cfg_if! {
        if #[cfg(feature = "strict-parser")] {
            assert_eq!(result, Err(ParseError::LengthIsTooLarge));
        } else {
            assert!(result.is_ok()); // Accepted by default
        }
    }
}

#[test]
fn strict_parser_bytes_checksum() {
    // Corresponds: strict_parser_str_checksum
    assert_eq!(NUM_BUCKETS_SHORT, 0x30);
    const BYTES1: &[u8] = b"\x30\x0D\xAB\
        \x38\x36\x18\x25\xF4\xFA\x6D\x0B\x57\x5C\x1C\xB5";
    const BYTES2: &[u8] = b"\x31\x0D\xAB\
        \x38\x36\x18\x25\xF4\xFA\x6D\x0B\x57\x5C\x1C\xB5";
    // Checksum: 0x30 (the maximum valid value)
    let result = hashes::Short::try_from(BYTES1);
    assert!(result.is_ok());
    // Checksum: 0x31 (invalid checksum)
    let result = hashes::Short::try_from(BYTES2);
    cfg_if::cfg_if! {
        if #[cfg(feature = "strict-parser")] {
            assert_eq!(result, Err(ParseError::InvalidChecksum));
        } else {
            assert!(result.is_ok()); // Accepted by default
        }
    }
}

#[test]
fn internal_data() {
    type CustomTlsh = hashes::Short;
    let hash = CustomTlsh::from_str("T1E16004017D3551777571D55C005CC5").unwrap();
    assert_eq!(hash.checksum().data(), b"\x1e");
    assert_eq!(hash.length().value(), 0x06);
    assert_eq!(hash.qratios().q1ratio(), 0x0);
    assert_eq!(hash.qratios().q2ratio(), 0x4);
    assert_eq!(
        hash.body().data().as_slice(),
        b"\x01\x7d\x35\x51\x77\x75\x71\xd5\x5c\x00\x5c\xc5"
    );
}

#[test]
fn from_and_to_str_prefix() {
    const HASH_STR_0: &str = "E16004017D3551777571D55C005CC5";
    const HASH_STR_1: &str = "T1E16004017D3551777571D55C005CC5";
    type CustomTlsh = hashes::Short;
    let mut buffer = [0u8; CustomTlsh::LEN_IN_STR];
    let hash0 = CustomTlsh::from_str(HASH_STR_0).unwrap();
    let hash1 = CustomTlsh::from_str(HASH_STR_1).unwrap();
    assert_eq!(hash0, hash1);
    // Of course, we can strip/append prefix using store_into_str_bytes.
    let size = hash0
        .store_into_str_bytes(buffer.as_mut_slice(), HexStringPrefix::WithVersion)
        .unwrap();
    assert_eq!(&buffer[..size], HASH_STR_1.as_bytes());
    let size = hash1
        .store_into_str_bytes(buffer.as_mut_slice(), HexStringPrefix::Empty)
        .unwrap();
    assert_eq!(&buffer[..size], HASH_STR_0.as_bytes());
}

#[test]
fn store_into_bytes_example() {
    type CustomTlsh = hashes::NormalWithLongChecksum;
    // In the example: 073FC70FCD36520C1B007FD320B9B266559FD998A0200725E75AFCEAC99F5881184A4B1AA2
    const BYTES_REPRESENTATION: &[u8] = b"\
        \x07\x3F\xC7\
        \x0F\
        \xCD\
        \x36\x52\x0C\x1B\x00\x7F\xD3\x20\
        \xB9\xB2\x66\x55\x9F\xD9\x98\xA0\
        \x20\x07\x25\xE7\x5A\xFC\xEA\xC9\
        \x9F\x58\x81\x18\x4A\x4B\x1A\xA2";
    // In the example: T170F37CF0DC36520C1B007FD320B9B266559FD998A0200725E75AFCEAC99F5881184A4B1AA2
    let hash = CustomTlsh::from_str(
        "T1\
        70F37C\
        F0\
        DC\
        36520C1B007FD320B9B266559FD998A0200725E75AFCEAC99F5881184A4B1AA2",
    )
    .unwrap();
    let mut buffer = [0; CustomTlsh::SIZE_IN_BYTES];
    assert_eq!(
        hash.store_into_bytes(&mut buffer),
        Ok(CustomTlsh::SIZE_IN_BYTES)
    );
    assert_eq!(&buffer, BYTES_REPRESENTATION);
    let hash2 = CustomTlsh::try_from(&buffer).unwrap();
    let hash3 = CustomTlsh::try_from(BYTES_REPRESENTATION).unwrap();
    assert_eq!(hash, hash2);
    assert_eq!(hash, hash3);
}

#[test]
fn store_into_bytes_insufficient_buffer() {
    let hash = hashes::Normal::from_str(
        "T14D9ADDD869983B33E27B4F308C459ED4F77FE24A4BC42C52CF1C9F046D5945AEA69888",
    )
    .unwrap();
    let mut buffer = [];
    assert_eq!(
        hash.store_into_bytes(buffer.as_mut_slice()),
        Err(OperationError::BufferIsTooSmall)
    );
}

#[test]
fn store_into_str_bytes_insufficient_buffer() {
    let hash = hashes::Normal::from_str(
        "T14D9ADDD869983B33E27B4F308C459ED4F77FE24A4BC42C52CF1C9F046D5945AEA69888",
    )
    .unwrap();
    let mut buffer = [];
    assert_eq!(
        hash.store_into_str_bytes(buffer.as_mut_slice(), HexStringPrefix::Empty),
        Err(OperationError::BufferIsTooSmall)
    );
    assert_eq!(
        hash.store_into_str_bytes(buffer.as_mut_slice(), HexStringPrefix::WithVersion),
        Err(OperationError::BufferIsTooSmall)
    );
}

#[test]
fn test_compare_with_config() {
    let hash1 = hashes::Normal::from_str(
        "T11632623FBA48037706C20162BB9764CBF21E903F3B552568354CC1681F6BA6543FB6EA",
    )
    .unwrap();
    let hash2 = hashes::Normal::from_str(
        "T11642623FBA48037706C20162BB9764CBF21E903F3B552568354CC1681F6BA6543FB6EA",
    )
    .unwrap();
    // Compare each parts
    assert_eq!(hash1.checksum().data(), hash2.checksum().data());
    assert_ne!(hash1.length(), hash2.length());
    assert_eq!(hash1.qratios(), hash2.qratios());
    assert_eq!(hash1.body().data(), hash2.body().data());
    // Comparison with compare and compare_with_config
    assert_eq!(hash1.compare(&hash2), 1);
    assert_eq!(
        hash1.compare_with_config(&hash2, ComparisonConfiguration::Default),
        1
    );
    assert_eq!(
        hash1.compare_with_config(&hash2, ComparisonConfiguration::NoLength),
        0
    );
}

#[test]
fn clear_checksum_modification() {
    const HASH_STR_1: &str = "T1E16004017D3551777571D55C005CC5";
    const HASH_STR_2: &str = "T1006004017D3551777571D55C005CC5";
    type CustomTlsh = hashes::Short;
    let hash_1 = CustomTlsh::from_str(HASH_STR_1).unwrap();
    let hash_2 = CustomTlsh::from_str(HASH_STR_2).unwrap();
    // Because hash2 has cleared checksum, they are different.
    assert_ne!(hash_1, hash_2);
    // Clearing the checksum part should succeed on our fuzzy hash type.
    let mut hash_1 = hash_1;
    hash_1.clear_checksum();
    // After clearing the checksum, they should match.
    assert_eq!(hash_1, hash_2);
}

#[test]
fn max_distances() {
    // Compare with pre-computed values.
    assert_eq!(
        hashes::Short::max_distance(ComparisonConfiguration::NoLength),
        457
    );
    assert_eq!(
        hashes::Short::max_distance(ComparisonConfiguration::Default),
        457 + 1536
    );
    assert_eq!(
        hashes::Normal::max_distance(ComparisonConfiguration::NoLength),
        937
    );
    assert_eq!(
        hashes::Normal::max_distance(ComparisonConfiguration::Default),
        937 + 1536
    );
    assert_eq!(
        hashes::NormalWithLongChecksum::max_distance(ComparisonConfiguration::NoLength),
        939
    );
    assert_eq!(
        hashes::NormalWithLongChecksum::max_distance(ComparisonConfiguration::Default),
        939 + 1536
    );
    assert_eq!(
        hashes::Long::max_distance(ComparisonConfiguration::NoLength),
        1705
    );
    assert_eq!(
        hashes::Long::max_distance(ComparisonConfiguration::Default),
        1705 + 1536
    );
    assert_eq!(
        hashes::LongWithLongChecksum::max_distance(ComparisonConfiguration::NoLength),
        1707
    );
    assert_eq!(
        hashes::LongWithLongChecksum::max_distance(ComparisonConfiguration::Default),
        1707 + 1536
    );
}
