// SPDX-License-Identifier: Apache-2.0 OR MIT
// SPDX-FileCopyrightText: Copyright (C) 2023, 2024 Tsukasa OI <floss_ssdeep@irq.a4lg.com>

//! The internal macros.

#![allow(unused_macros)]

/// "Optionally" unsafe block.
///
/// When this crate is built with the `unsafe` feature, this macro is
/// expanded to an `unsafe` block.
///
/// Inside this block, you may place statements that may change the behavior
/// depending on the feature `unsafe`.  For instance, you may place
/// [`invariant!()`] inside this block.
///
/// ```ignore
/// # // Because this is an internal macro, we must ignore on the doctest
/// # // because each Rust doctest's scope is external to this crate.
/// // INTERNAL USE (INSIDE THIS CRATE) ONLY
/// // let index: usize = ... (but proven to be inside the array).
/// # let index = 3usize;
/// let array = [0, 1, 2, 3];
/// optionally_unsafe! {
///     invariant!(index < array.len());
/// }
/// // Bound checking may be optimized out.
/// let result = array[index];
/// ```
#[doc(alias = "optionally_unsafe")]
macro_rules! optionally_unsafe_impl {
    {$($tokens: tt)*} => {
        cfg_if::cfg_if! {
            if #[cfg(feature = "unsafe")] {
                unsafe { $($tokens)* }
            } else {
                { $($tokens)* }
            }
        }
    };
}

/// Declare an invariant for optimization.
///
/// When the feature `unsafe` is disabled, it only places [`debug_assert!()`].
/// If both `unsafe` and `unstable` are enabled, [`core::intrinsics::assume()`]
/// is used (which requires the `core_intrinsics` Rust unstable feature).
/// If only the `unsafe` feature is enabled,
/// [`core::hint::unreachable_unchecked()`] is used.
///
/// If `unsafe` and `unstable` are enabled, enable unstable `core_intrinsics`
/// feature.
///
/// The difference is, since `unsafe` (without `unstable`) implementation uses
/// plain `if` statement, non-intuitive expression may appear in the code (on
/// the other hand, [`core::intrinsics::assume()`] guarantees that it does not
/// emit any code).
///
/// Optimization behaviors are disabled on tests.
///
/// Use this macro along with [`optionally_unsafe!{}`].
#[doc(alias = "invariant")]
macro_rules! invariant_impl {
    ($expr: expr) => {
        cfg_if::cfg_if! {
            if #[cfg(all(feature = "unsafe", feature = "unstable", not(test)))] {
                core::intrinsics::assume($expr);
            } else if #[cfg(all(feature = "unsafe", not(test)))] {
                if !($expr) {
                    core::hint::unreachable_unchecked();
                }
            } else {
                debug_assert!($expr);
            }
        }
    };
}

pub(crate) use invariant_impl as invariant;
pub(crate) use optionally_unsafe_impl as optionally_unsafe;

mod tests;
