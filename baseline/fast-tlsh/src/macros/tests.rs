// SPDX-License-Identifier: Apache-2.0 OR MIT
// SPDX-FileCopyrightText: Copyright (C) 2024 Tsukasa OI <floss_ssdeep@irq.a4lg.com>.

//! Tests: [`crate::macros`].

#![cfg(test)]

#[forbid(unsafe_code)]
#[cfg(debug_assertions)]
#[test]
#[should_panic]
fn violation_invariant() {
    // On tests, an invariant is just a debug_assert,
    // that should work outside an unsafe block.
    super::invariant!(false);
}
