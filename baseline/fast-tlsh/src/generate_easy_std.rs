// SPDX-License-Identifier: Apache-2.0 OR MIT
// SPDX-FileCopyrightText: Copyright (C) 2024 Tsukasa OI <floss_ssdeep@irq.a4lg.com>.

//! The easy wrapper for generator functionalities (for `std` environment).

#![cfg(all(feature = "std", feature = "easy-functions"))]

use std::fs::File;
use std::io::Read;
use std::path::Path;

use crate::errors::GeneratorOrIOError;
use crate::generate::Generator;
use crate::params::ConstrainedFuzzyHashType;
use crate::{GeneratorType, Tlsh};

/// Constant temporary buffer size for "easy" functions.
const BUFFER_SIZE: usize = 1048576;

/// Generates a fuzzy hash from a given reader stream.
///
/// This is a common function grouping buffering part.
///
/// # Performance Consideration
///
/// It doesn't use [`BufReader`](std::io::BufReader) because the internal buffer
/// is large enough.  Note that the default buffer size of `BufReader` is
/// normally 8KiB (while [buffer size](BUFFER_SIZE) here has 1MiB).
#[inline]
fn hash_stream_common<R: Read, G: GeneratorType>(
    generator: &mut G,
    reader: &mut R,
) -> Result<G::Output, GeneratorOrIOError> {
    let mut buffer = vec![0u8; BUFFER_SIZE];
    loop {
        let len = match reader.read(&mut buffer) {
            Ok(len) => len,
            // A transient interruption is not an error: retry (as `Read::read_exact` etc. do).
            Err(err) if err.kind() == std::io::ErrorKind::Interrupted => continue,
            Err(err) => return Err(err.into()),
        };
        if len == 0 {
            break;
        }
        // `len` comes from a caller-supplied `Read` implementation: it must not be
        // handed to the optimizer as an assumption.  The slice below checks it.
        generator.update(&buffer[0..len]);
    }
    Ok(generator.finalize()?)
}

/// Generates a fuzzy hash from a given reader stream
/// (with specified output type).
///
/// # Example
///
/// ```
/// use std::fs::File;
///
/// type CustomTlsh = tlsh::hashes::Short;
///
/// fn main() -> Result<(), tlsh::GeneratorOrIOError> {
///     let mut stream = File::open("data/examples/smallexe.exe")?;
///     let fuzzy_hash: CustomTlsh = tlsh::hash_stream_for(&mut stream)?;
///     let fuzzy_hash_str = fuzzy_hash.to_string();
///     assert_eq!(fuzzy_hash_str, "T140E0483A5DFC1B073D86A4A2C55A43");
///     Ok(())
/// }
/// ```
pub fn hash_stream_for<T: ConstrainedFuzzyHashType, R: Read>(
    reader: &mut R,
) -> Result<T, GeneratorOrIOError> {
    let mut generator = Generator::<T>::new();
    hash_stream_common(&mut generator, reader)
}

/// Generates a fuzzy hash from a given reader stream.
///
/// # Example
///
/// ```
/// use std::fs::File;
///
/// fn main() -> Result<(), tlsh::GeneratorOrIOError> {
///     let mut stream = File::open("data/examples/smallexe.exe")?;
///     let fuzzy_hash = tlsh::hash_stream(&mut stream)?;
///     let fuzzy_hash_str = fuzzy_hash.to_string();
///     assert_eq!(fuzzy_hash_str, "T1FFE04C037F895471D42E5530499E47473757E5E456D28B13ED1944654C8534C7CE9E01");
///     Ok(())
/// }
/// ```
pub fn hash_stream<R: Read>(reader: &mut R) -> Result<Tlsh, GeneratorOrIOError> {
    hash_stream_for::<Tlsh, _>(reader)
}

/// Generates a fuzzy hash from a given file
/// (with specified output type).
///
/// # Example
///
/// ```
/// type CustomTlsh = tlsh::hashes::Short;
///
/// fn main() -> Result<(), tlsh::GeneratorOrIOError> {
///     let fuzzy_hash: CustomTlsh = tlsh::hash_file_for("data/examples/smallexe.exe")?;
///     let fuzzy_hash_str = fuzzy_hash.to_string();
///     assert_eq!(fuzzy_hash_str, "T140E0483A5DFC1B073D86A4A2C55A43");
///     Ok(())
/// }
/// ```
pub fn hash_file_for<T: ConstrainedFuzzyHashType, P: AsRef<Path>>(
    path: P,
) -> Result<T, GeneratorOrIOError> {
    let mut file = File::open(path)?;
    let mut generator = Generator::new();
    hash_stream_common(&mut generator, &mut file)
}

/// Generates a fuzzy hash from a given file.
///
/// # Example
///
/// ```
/// fn main() -> Result<(), tlsh::GeneratorOrIOError> {
///     let fuzzy_hash = tlsh::hash_file("data/examples/smallexe.exe")?;
///     let fuzzy_hash_str = fuzzy_hash.to_string();
///     assert_eq!(fuzzy_hash_str, "T1FFE04C037F895471D42E5530499E47473757E5E456D28B13ED1944654C8534C7CE9E01");
///     Ok(())
/// }
/// ```
pub fn hash_file<P: AsRef<Path>>(path: P) -> Result<Tlsh, GeneratorOrIOError> {
    hash_file_for::<Tlsh, _>(path)
}

mod tests;
