// SPDX-License-Identifier: Apache-2.0 OR MIT
// SPDX-FileCopyrightText: Copyright (C) 2024 Tsukasa OI <floss_ssdeep@irq.a4lg.com>.

//! The easy wrapper for generator functionalities.

#![cfg(feature = "easy-functions")]

use crate::errors::GeneratorError;
use crate::generate::Generator;
use crate::params::ConstrainedFuzzyHashType;
use crate::{GeneratorType, Tlsh};

/// Generates a fuzzy hash from a given buffer
/// (with specified output type).
///
/// # Example
///
/// ```
/// type CustomTlsh = tlsh::hashes::Short;
///
/// // Make a fuzzy hash from the buffer.
/// let hash = tlsh::hash_buf_for::<CustomTlsh>(b"Hello, World!").unwrap();
///
/// // Compare with known result.
/// // Note: short fuzzy hashes accept very short inputs.
/// assert_eq!(hash.to_string(), "T1E16004017D3551777571D55C005CC5");
/// ```
pub fn hash_buf_for<T: ConstrainedFuzzyHashType>(buffer: &[u8]) -> Result<T, GeneratorError> {
    let mut generator = Generator::<T>::new();
    generator.update(buffer);
    generator.finalize()
}

/// Generates a fuzzy hash from a given buffer.
///
/// # Example
///
/// ```
/// // Make a fuzzy hash from the buffer.
/// let hash = tlsh::hash_buf(
///     b"Lorem ipsum dolor sit amet, consectetur adipiscing elit, sed do \
///     eiusmod tempor incididunt ut labore et dolore magna aliqua. Ut enim ad \
///     minim veniam, quis nostrud exercitation ullamco laboris nisi ut \
///     aliquip ex ea commodo consequat. Duis aute irure dolor in \
///     reprehenderit in voluptate velit esse cillum dolore eu fugiat nulla \
///     pariatur. Excepteur sint occaecat cupidatat non proident, sunt in \
///     culpa qui officia deserunt mollit anim id est laborum.",
/// )
/// .unwrap();
///
/// // Compare with known result.
/// assert_eq!(
///     hash.to_string(),
///     "T1DCF0DC36520C1B007FD32079B226559FD998A0200725E75AFCEAC99F5881184A4B1AA2"
/// );
/// ```
pub fn hash_buf(buffer: &[u8]) -> Result<Tlsh, GeneratorError> {
    hash_buf_for::<Tlsh>(buffer)
}

mod tests;
