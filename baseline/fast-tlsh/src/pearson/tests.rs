// SPDX-License-Identifier: Apache-2.0 OR MIT
// SPDX-FileCopyrightText: Copyright (C) 2024 Tsukasa OI <floss_ssdeep@irq.a4lg.com>.

//! Tests: [`crate::pearson`].

#![cfg(test)]

use super::{
    final_256, final_48, init, tlsh_b_mapping_256, tlsh_b_mapping_48, update, update_double,
    INITIAL_STATE, SUBST_TABLE,
};

#[test]
fn init_example() {
    assert_eq!(init(0x02), 0x31);
}

#[test]
fn init_and_update_equivalence() {
    for value in u8::MIN..=u8::MAX {
        assert_eq!(init(value), update(INITIAL_STATE, value));
    }
}

#[test]
fn update_sample() {
    let state = init(0x02);
    let state = update(state, 0xbe);
    let state = update(state, 0xef);
    assert_eq!(state, 0x63);
}

#[test]
fn update_double_equivalence() {
    for salt in u8::MIN..=u8::MAX {
        for b1 in u8::MIN..=u8::MAX {
            for b2 in u8::MIN..=u8::MAX {
                assert_eq!(update_double(salt, b1, b2), update(update(salt, b1), b2));
            }
        }
    }
}

#[test]
fn final_256_example() {
    let state = init(0x02);
    let state = update_double(state, 0xbe, 0xef);
    let state = final_256(state, 0x00);
    assert_eq!(state, 0x4b);
}

#[test]
fn final_48_example() {
    let state = init(0x02);
    let state = update_double(state, 0xbe, 0xef);
    let state = final_48(state, 0x00);
    assert_eq!(state, 0x1b);
}

#[test]
fn final_48_and_256() {
    for state in u8::MIN..=u8::MAX {
        for value in u8::MIN..=u8::MAX {
            let expected = {
                let v = final_256(state, value);
                if v >= 240 {
                    48
                } else {
                    v % 48
                }
            };
            assert_eq!(final_48(state, value), expected);
        }
    }
}

#[test]
fn tlsh_b_mapping_examples() {
    // See also: final_256_example
    assert_eq!(tlsh_b_mapping_256(0x02, 0xbe, 0xef, 0x00), 0x4b);
    // See also: final_48_example
    assert_eq!(tlsh_b_mapping_48(0x02, 0xbe, 0xef, 0x00), 0x1b);
}

#[test]
fn subst_table_on_tlsh_optimization() {
    // All of these examples are from TLSH's tlsh_impl.cpp (as a part of
    // "manual constant folding on the first byte" we are not performing).
    macro_rules! test_case {
        ($initial: expr, $expected: expr) => {
            assert_eq!(init($initial), $expected);
            assert_eq!(SUBST_TABLE[$initial], $expected);
        };
    }
    test_case!(0, 1);
    test_case!(2, 49);
    test_case!(3, 12);
    test_case!(5, 178);
    test_case!(7, 166);
    test_case!(11, 84);
    test_case!(13, 230);
    test_case!(17, 197);
    test_case!(19, 181);
    test_case!(23, 80);
    test_case!(29, 142);
    test_case!(31, 200);
    test_case!(37, 253);
    test_case!(41, 101);
    test_case!(43, 18);
    test_case!(47, 222);
    test_case!(53, 237);
    test_case!(59, 214);
    test_case!(61, 227);
    test_case!(67, 22);
    test_case!(71, 175);
    test_case!(73, 5);
}
