// SPDX-License-Identifier: Apache-2.0 OR MIT
// SPDX-FileCopyrightText: Copyright 2013 Trend Micro Incorporated
// SPDX-FileCopyrightText: Copyright (C) 2024 Tsukasa OI <floss_ssdeep@irq.a4lg.com>.

//! The fuzzy hash and its parts (unless a part has its own module).

use core::fmt::Display;
use core::str::FromStr;

#[cfg(feature = "serde")]
use serde::de::Visitor;
#[cfg(feature = "serde")]
use serde::{Deserialize, Serialize};

use crate::compare::ComparisonConfiguration;
use crate::errors::{OperationError, ParseError};
use crate::hash::body::FuzzyHashBody;
use crate::hash::checksum::FuzzyHashChecksum;
use crate::hash::qratios::FuzzyHashQRatios;
use crate::length::FuzzyHashLengthEncoding;
use crate::params::{ConstrainedFuzzyHashParams, FuzzyHashParams};
use crate::FuzzyHashType;

pub mod body;
pub mod checksum;
pub mod qratios;

/// Denotes the prefix on the TLSH's hexadecimal representation.
#[derive(Debug, Clone, Copy, PartialEq, Eq, Default)]
pub enum HexStringPrefix {
    /// Raw / empty.
    ///
    /// If this value is specified to convert a fuzzy hash to string, no prefix
    /// is added and the result will purely consist of hexadecimal digits.
    ///
    /// If this value is specified to a parser method, it expects that the
    /// string immediately starts with a hexadecimal digit.
    Empty,

    /// With TLSH prefix and version (current default).
    ///
    /// This crate only supports version 1 prefix (`"T1"`).
    ///
    /// If this value is specified to convert a fuzzy hash to string, the TLSHv1
    /// prefix (`"T1"`) is added before the hexadecimal digits.
    ///
    /// If this value is specified to a parser method, it expects that the
    /// TLSHv1 prefix (`"T1"`) exists at the beginning.
    /// *This prefix is case-sensitive.*
    #[default]
    WithVersion,
}

/// The public part for later `pub use` at crate root.
pub(crate) mod public {
    use super::*;

    /// The trait to represent a fuzzy hash (TLSH).
    ///
    /// # TLSH Internals
    ///
    /// A fuzzy hash (TLSH) is composed of up to four parts:
    ///
    /// 1.  Checksum (checksum of the input, 1 or 3 bytes)
    ///     *   Trait: [`crate::hash::checksum::FuzzyHashChecksum`]
    ///     *   Internal Type: [`crate::hash::checksum::FuzzyHashChecksumData`]
    /// 2.  Data Length (approximated, encoded as an 8-bit integer)
    ///     *   Internal Type: [`crate::length::FuzzyHashLengthEncoding`]
    /// 3.  Q ratio pair, each Q ratio value reflecting the statistic distribution.
    ///     *   Internal Type: [`crate::hash::qratios::FuzzyHashQRatios`]
    /// 4.  Body.  Encoded as the specific number of quartile values
    ///     (each in 2-bits), in which the quartile count equals the number
    ///     of "buckets", used to gather statistic information (local features)
    ///     of the given input.
    ///     *   Trait: [`crate::hash::body::FuzzyHashBody`]
    ///     *   Internal Type: [`crate::hash::body::FuzzyHashBodyData`]
    ///
    /// Note that the checksum part can be always zero on some TLSH
    /// configurations (i.e. multi-threading is enabled or private flag is set).
    ///
    /// This trait is implemented by [`FuzzyHash`].
    pub trait FuzzyHashType: Sized + FromStr<Err = ParseError> + Display {
        /// The type of the checksum part.
        ///
        /// This is an instantiation of
        /// [`crate::hash::checksum::FuzzyHashChecksumData`].
        type ChecksumType: FuzzyHashChecksum;

        /// The type of the body part.
        ///
        /// This is an instantiation of
        /// [`crate::hash::body::FuzzyHashBodyData`].
        type BodyType: FuzzyHashBody;

        /// Number of the buckets.
        ///
        /// Specifically, this constant denotes the number of *effective*
        /// buckets that are used to construct a fuzzy hash.
        ///
        /// Sometimes, the number of physical buckets (number of possible
        /// results after the Pearson hashing or its variant) differs
        /// from the number of effective buckets.
        ///
        /// | Variant | Effective Buckets | Physical Buckets |
        /// | ------- | -----------------:| ----------------:|
        /// | Short   |              `48` |            *`49` |
        /// | Normal  |             `128` |           *`256` |
        /// | Long    |             `256` |            `256` |
        ///
        /// On those cases, only the first effective buckets are used and the
        /// rest are ignored / dropped.
        const NUMBER_OF_BUCKETS: usize;

        /// Total size of the fuzzy hash (if represented as a byte array)
        /// in bytes (in the binary representation).
        ///
        /// This is the fixed size and required buffer size for the
        /// [`store_into_bytes()`](Self::store_into_bytes()) method.
        const SIZE_IN_BYTES: usize;

        /// Length in the hexadecimal string representation
        /// (except the prefix `"T1"`).
        ///
        /// This is always [`LEN_IN_STR`](Self::LEN_IN_STR) minus 2.
        ///
        /// This is the fixed size and required buffer size for the
        /// [`store_into_str_bytes()`](Self::store_into_str_bytes()) method with
        /// `prefix` of [`HexStringPrefix::Empty`].
        const LEN_IN_STR_EXCEPT_PREFIX: usize;

        /// Length in the hexadecimal string representation.
        ///
        /// This is always
        /// [`LEN_IN_STR_EXCEPT_PREFIX`](Self::LEN_IN_STR_EXCEPT_PREFIX) plus 2.
        ///
        /// This is the fixed size and required buffer size for the
        /// [`store_into_str_bytes()`](Self::store_into_str_bytes()) method with
        /// `prefix` of [`HexStringPrefix::WithVersion`].
        const LEN_IN_STR: usize;

        /// Returns the checksum part.
        fn checksum(&self) -> &Self::ChecksumType;
        /// Returns the length part.
        fn length(&self) -> &FuzzyHashLengthEncoding;
        /// Returns the Q ratio pair part.
        fn qratios(&self) -> &FuzzyHashQRatios;
        /// Returns the body part.
        fn body(&self) -> &Self::BodyType;

        /// Try parsing the fuzzy hash object from the given TLSH's hexadecimal
        /// representation and the operation mode.
        ///
        /// If the argument `prefix` is [`None`], the existence of the prefix
        /// will be auto-detected.  Otherwise, the existence of
        /// [the specified prefix](HexStringPrefix) is checked.
        fn from_str_bytes(
            bytes: &[u8],
            prefix: Option<HexStringPrefix>,
        ) -> Result<Self, ParseError>;

        /// Try parsing the fuzzy hash object from the given TLSH's hexadecimal
        /// representation and the operation mode.
        ///
        /// If the argument `prefix` is [`None`], the existence of the prefix
        /// will be auto-detected.  Otherwise, the existence of
        /// [the specified prefix](HexStringPrefix) is checked.
        #[inline(always)]
        fn from_str_with(s: &str, prefix: Option<HexStringPrefix>) -> Result<Self, ParseError> {
            Self::from_str_bytes(s.as_bytes(), prefix)
        }

        /// Store the contents of this object to the specified slice
        /// (in a binary format).
        ///
        /// This method stores the contents as a binary format suitable
        /// for serialization and parsing, to the specified slice.
        ///
        /// # The Binary Format with a Warning
        ///
        /// The binary format **slightly differs** from the representation you
        /// might expect from the TLSH's hexadecimal representation.
        ///
        /// The TLSH's hexadecimal representation has weird nibble endianness on
        /// the header (checksum, length and Q ratio pair parts).  For instance,
        /// the checksum part in the TLSH's hex representation `"42"` means
        /// the real checksum value of `0x24`.
        ///
        /// The body part is also *reversed* in a sense but this part is handled
        /// equivalently by this crate (because only "byte" ordering is
        /// reversed in one interpretation).  So, you may get the one you
        /// may expect from the TLSH's hexadecimal representation,
        /// at least in the body.
        ///
        /// The binary format used by this method doesn't do that conversion
        /// on the header.
        ///
        /// For instance, following TLSH hash
        /// ([normal 128 buckets with long 3-byte checksum](crate::hashes::NormalWithLongChecksum)):
        ///
        /// ```text
        /// T170F37CF0DC36520C1B007FD320B9B266559FD998A0200725E75AFCEAC99F5881184A4B1AA2 (raw)
        ///
        /// T1 70F37C F0 DC 36520C1B007FD320B9B266559FD998A0200725E75AFCEAC99F5881184A4B1AA2 (decomposed)
        /// |  |      |  |  ~~~~~~~~~~~~~~~~~~~~~~~~~~~~~~~~~~~~~~~~~~~~~~~~~~~~~~~~~~~~~~~~
        /// |  |      |  |                Body / Buckets in quartiles (32-byte, 128 buckets)
        /// |  |      |  +- Q ratio pair (reversed; Q1 ratio -> Q2 ratio)
        /// |  |      +- Length (reversed)
        /// |  +- 3-byte Checksum (reversed per byte; AB CD EF -> BA DC FE)
        /// +- Header and version
        /// ```
        ///
        /// will be written as the following byte sequence by this method:
        ///
        /// ```text
        /// 073FC70FCD36520C1B007FD320B9B266559FD998A0200725E75AFCEAC99F5881184A4B1AA2 (raw)
        ///
        /// __ 073FC7 0F CD 36520C1B007FD320B9B266559FD998A0200725E75AFCEAC99F5881184A4B1AA2 (decomposed)
        /// |  |      |  |  ~~~~~~~~~~~~~~~~~~~~~~~~~~~~~~~~~~~~~~~~~~~~~~~~~~~~~~~~~~~~~~~~
        /// |  |      |  |                Body / Buckets in quartiles (32-byte, 128 buckets)
        /// |  |      |  +- Q ratio pair (Q2 ratio -> Q1 ratio)                 (kept as is)
        /// |  |      +- Length
        /// |  +- 3-byte Checksum
        /// +- No header and version
        /// ```
        ///
        /// # The Specification
        ///
        /// This method concatenates:
        ///
        /// 1.  Checksum
        /// 2.  Length encoding
        /// 3.  Q ratio pair
        /// 4.  Body
        ///
        /// in that order (without any explicit variable length encodings or
        /// separators).  Each binary representation of the part can be
        /// retrieved as either an [`u8`] value or a slice / array of [`u8`].
        ///
        /// See [struct documentation](Self#tlsh-internals) for details.
        fn store_into_bytes(&self, out: &mut [u8]) -> Result<usize, OperationError>;

        /// Store the contents of this object to the specified slice
        /// (in the TLSH's hexadecimal representation).
        ///
        /// This method stores the contents as a TLSH's hexadecimal string
        /// representation with [the specified prefix](HexStringPrefix).
        fn store_into_str_bytes(
            &self,
            out: &mut [u8],
            prefix: HexStringPrefix,
        ) -> Result<usize, OperationError>;

        /// Compute the max distance on [comparison](Self::compare()) with
        /// the specified comparison configuration.
        ///
        /// If you need the maximum distance on the default configuration,
        /// use the first argument of [`Default::default()`].
        fn max_distance(config: ComparisonConfiguration) -> u32;

        /// Compare with another instance (with a configuration) and
        /// return the distance between them.
        ///
        /// Normally, you will likely use the default configuration and use
        /// [`compare()`](Self::compare()) instead.
        fn compare_with_config(&self, other: &Self, config: ComparisonConfiguration) -> u32;

        /// Compare with another instance with [the default configuration](ComparisonConfiguration::Default)
        /// and return the distance between them.
        ///
        /// If you need to use a non-default option, use
        /// [`compare_with_config()`](Self::compare_with_config()) instead.
        #[inline(always)]
        fn compare(&self, other: &Self) -> u32 {
            self.compare_with_config(other, ComparisonConfiguration::Default)
        }

        /// Clear the checksum for comparison with another fuzzy hash without checksum.
        fn clear_checksum(&mut self);
    }
}

/// The inner representation and its implementation.
pub(crate) mod inner {
    use super::*;

    use crate::buckets::constrained::{FuzzyHashBucketMapper, FuzzyHashBucketsInfo};
    use crate::hash::body::FuzzyHashBodyData;
    use crate::hash::checksum::FuzzyHashChecksumData;
    use crate::macros::{invariant, optionally_unsafe};
    use crate::params::{ConstrainedVerboseFuzzyHashParams, VerboseFuzzyHashParams};
    #[cfg(not(feature = "opt-simd-convert-hex"))]
    use crate::parse::hex_str::encode_array;
    use crate::parse::hex_str::{encode_rev_1, encode_rev_array};

    /// The struct representing a fuzzy hash.
    ///
    /// This type is used as an inner representation of [`super::FuzzyHash`].
    #[derive(Debug, Clone, Copy, PartialEq, Eq)]
    pub struct FuzzyHash<
        const SIZE_CKSUM: usize,
        const SIZE_BODY: usize,
        const SIZE_BUCKETS: usize,
        const SIZE_IN_BYTES: usize,
        const SIZE_IN_STR_BYTES: usize,
    >
    where
        FuzzyHashBodyData<SIZE_BODY>: FuzzyHashBody,
        FuzzyHashBucketsInfo<SIZE_BUCKETS>: FuzzyHashBucketMapper,
        FuzzyHashChecksumData<SIZE_CKSUM, SIZE_BUCKETS>: FuzzyHashChecksum,
        VerboseFuzzyHashParams<
            SIZE_CKSUM,
            SIZE_BODY,
            SIZE_BUCKETS,
            SIZE_IN_BYTES,
            SIZE_IN_STR_BYTES,
        >: ConstrainedVerboseFuzzyHashParams,
    {
        /// The body part.
        body: FuzzyHashBodyData<SIZE_BODY>,
        /// The checksum part.
        checksum: FuzzyHashChecksumData<SIZE_CKSUM, SIZE_BUCKETS>,
        /// The encoded data length part.
        lvalue: FuzzyHashLengthEncoding,
        /// The Q ratio pair.
        qratios: FuzzyHashQRatios,
    }

    impl<
            const SIZE_CKSUM: usize,
            const SIZE_BODY: usize,
            const SIZE_BUCKETS: usize,
            const SIZE_IN_BYTES: usize,
            const SIZE_IN_STR_BYTES: usize,
        > FuzzyHash<SIZE_CKSUM, SIZE_BODY, SIZE_BUCKETS, SIZE_IN_BYTES, SIZE_IN_STR_BYTES>
    where
        FuzzyHashBodyData<SIZE_BODY>: FuzzyHashBody,
        FuzzyHashBucketsInfo<SIZE_BUCKETS>: FuzzyHashBucketMapper,
        FuzzyHashChecksumData<SIZE_CKSUM, SIZE_BUCKETS>: FuzzyHashChecksum,
        VerboseFuzzyHashParams<
            SIZE_CKSUM,
            SIZE_BODY,
            SIZE_BUCKETS,
            SIZE_IN_BYTES,
            SIZE_IN_STR_BYTES,
        >: ConstrainedVerboseFuzzyHashParams,
    {
        /// Creates an object from its raw parts.
        pub(crate) fn from_raw(
            body: FuzzyHashBodyData<SIZE_BODY>,
            checksum: FuzzyHashChecksumData<SIZE_CKSUM, SIZE_BUCKETS>,
            lvalue: FuzzyHashLengthEncoding,
            qratios: FuzzyHashQRatios,
        ) -> Self {
            Self {
                body,
                checksum,
                lvalue,
                qratios,
            }
        }
    }

    impl<
            const SIZE_CKSUM: usize,
            const SIZE_BODY: usize,
            const SIZE_BUCKETS: usize,
            const SIZE_IN_BYTES: usize,
            const SIZE_IN_STR_BYTES: usize,
        > FuzzyHashType
        for FuzzyHash<SIZE_CKSUM, SIZE_BODY, SIZE_BUCKETS, SIZE_IN_BYTES, SIZE_IN_STR_BYTES>
    where
        FuzzyHashBodyData<SIZE_BODY>: FuzzyHashBody,
        FuzzyHashBucketsInfo<SIZE_BUCKETS>: FuzzyHashBucketMapper,
        FuzzyHashChecksumData<SIZE_CKSUM, SIZE_BUCKETS>: FuzzyHashChecksum,
        VerboseFuzzyHashParams<
            SIZE_CKSUM,
            SIZE_BODY,
            SIZE_BUCKETS,
            SIZE_IN_BYTES,
            SIZE_IN_STR_BYTES,
        >: ConstrainedVerboseFuzzyHashParams,
    {
        type ChecksumType = FuzzyHashChecksumData<SIZE_CKSUM, SIZE_BUCKETS>;
        type BodyType = FuzzyHashBodyData<SIZE_BODY>;

        const NUMBER_OF_BUCKETS: usize = SIZE_BUCKETS;
        const SIZE_IN_BYTES: usize = SIZE_IN_BYTES;
        const LEN_IN_STR_EXCEPT_PREFIX: usize = SIZE_IN_STR_BYTES - 2;
        const LEN_IN_STR: usize = SIZE_IN_STR_BYTES;

        #[inline]
        fn from_str_bytes(
            bytes: &[u8],
            prefix: Option<HexStringPrefix>,
        ) -> Result<Self, ParseError> {
            let mut bytes = bytes;
            let prefix = match prefix {
                None => {
                    if bytes.len() == Self::LEN_IN_STR_EXCEPT_PREFIX {
                        HexStringPrefix::Empty
                    } else if bytes.len() == Self::LEN_IN_STR {
                        HexStringPrefix::WithVersion
                    } else {
                        return Err(ParseError::InvalidStringLength);
                    }
                }
                Some(x) => x,
            };
            match prefix {
                HexStringPrefix::Empty => {
                    if bytes.len() != Self::LEN_IN_STR_EXCEPT_PREFIX {
                        return Err(ParseError::InvalidStringLength);
                    }
                }
                HexStringPrefix::WithVersion => {
                    if bytes.len() != Self::LEN_IN_STR {
                        return Err(ParseError::InvalidStringLength);
                    }
                    if &bytes[0..2] != b"T1" {
                        return Err(ParseError::InvalidPrefix);
                    }
                    bytes = &bytes[2..];
                }
            }
            let checksum = FuzzyHashChecksumData::<SIZE_CKSUM, SIZE_BUCKETS>::from_str_bytes(
                &bytes[0..SIZE_CKSUM * 2],
            )?;
            #[cfg(feature = "strict-parser")]
            if !checksum.is_valid() {
                return Err(ParseError::InvalidChecksum);
            }
            bytes = &bytes[SIZE_CKSUM * 2..];
            let lvalue = FuzzyHashLengthEncoding::from_str_bytes(&bytes[0..2])?;
            #[cfg(feature = "strict-parser")]
            if !lvalue.is_valid() {
                return Err(ParseError::LengthIsTooLarge);
            }
            let qratios = FuzzyHashQRatios::from_str_bytes(&bytes[2..4])?;
            let body = FuzzyHashBodyData::<SIZE_BODY>::from_str_bytes(&bytes[4..])?;
            Ok(Self {
                body,
                checksum,
                lvalue,
                qratios,
            })
        }

        #[inline(always)]
        fn checksum(&self) -> &Self::ChecksumType {
            &self.checksum
        }
        #[inline(always)]
        fn length(&self) -> &FuzzyHashLengthEncoding {
            &self.lvalue
        }
        #[inline(always)]
        fn qratios(&self) -> &FuzzyHashQRatios {
            &self.qratios
        }
        #[inline(always)]
        fn body(&self) -> &Self::BodyType {
            &self.body
        }

        #[inline]
        fn store_into_bytes(&self, out: &mut [u8]) -> Result<usize, crate::errors::OperationError> {
            if out.len() < Self::SIZE_IN_BYTES {
                return Err(OperationError::BufferIsTooSmall);
            }
            out[0..SIZE_CKSUM].copy_from_slice(self.checksum.data());
            out[SIZE_CKSUM] = self.lvalue.value();
            out[SIZE_CKSUM + 1] = self.qratios.value();
            out[SIZE_CKSUM + 2..SIZE_IN_BYTES].copy_from_slice(self.body.data());
            Ok(Self::SIZE_IN_BYTES)
        }

        #[inline]
        fn store_into_str_bytes(
            &self,
            out: &mut [u8],
            prefix: HexStringPrefix,
        ) -> Result<usize, crate::errors::OperationError> {
            let len = match prefix {
                HexStringPrefix::Empty => Self::LEN_IN_STR_EXCEPT_PREFIX,
                HexStringPrefix::WithVersion => Self::LEN_IN_STR,
            };
            if out.len() < len {
                return Err(OperationError::BufferIsTooSmall);
            }
            let mut out = out;
            if prefix == HexStringPrefix::WithVersion {
                out[0..2].copy_from_slice(b"T1");
                out = &mut out[2..];
            }
            encode_rev_array(out, self.checksum.data());
            out = &mut out[SIZE_CKSUM * 2..];
            encode_rev_1(&mut out[0..2], self.lvalue.value());
            encode_rev_1(&mut out[2..4], self.qratios.value());
            cfg_if::cfg_if! {
                if #[cfg(feature = "opt-simd-convert-hex")] {
                    let _ = hex_simd::encode(
                        self.body.data(),
                        hex_simd::Out::from_slice(&mut out[4..]),
                        hex_simd::AsciiCase::Upper,
                    );
                } else {
                    encode_array(&mut out[4..], self.body.data());
                }
            }
            Ok(len)
        }

        #[inline]
        fn max_distance(config: ComparisonConfiguration) -> u32 {
            FuzzyHashBodyData::<SIZE_BODY>::MAX_DISTANCE
                + FuzzyHashChecksumData::<SIZE_CKSUM, SIZE_BUCKETS>::MAX_DISTANCE
                + FuzzyHashQRatios::MAX_DISTANCE
                + (match config {
                    ComparisonConfiguration::Default => FuzzyHashLengthEncoding::MAX_DISTANCE,
                    ComparisonConfiguration::NoLength => 0,
                })
        }

        #[inline]
        fn compare_with_config(&self, other: &Self, config: ComparisonConfiguration) -> u32 {
            self.body.compare(&other.body)
                + self.checksum.compare(&other.checksum)
                + self.qratios.compare(&other.qratios)
                + (match config {
                    ComparisonConfiguration::Default => self.lvalue.compare(&other.lvalue),
                    ComparisonConfiguration::NoLength => 0,
                })
        }

        fn clear_checksum(&mut self) {
            self.checksum.clear();
        }
    }

    impl<
            const SIZE_CKSUM: usize,
            const SIZE_BODY: usize,
            const SIZE_BUCKETS: usize,
            const SIZE_IN_BYTES: usize,
            const SIZE_IN_STR_BYTES: usize,
        > TryFrom<&[u8; SIZE_IN_BYTES]>
        for FuzzyHash<SIZE_CKSUM, SIZE_BODY, SIZE_BUCKETS, SIZE_IN_BYTES, SIZE_IN_STR_BYTES>
    where
        FuzzyHashBodyData<SIZE_BODY>: FuzzyHashBody,
        FuzzyHashBucketsInfo<SIZE_BUCKETS>: FuzzyHashBucketMapper,
        FuzzyHashChecksumData<SIZE_CKSUM, SIZE_BUCKETS>: FuzzyHashChecksum,
        VerboseFuzzyHashParams<
            SIZE_CKSUM,
            SIZE_BODY,
            SIZE_BUCKETS,
            SIZE_IN_BYTES,
            SIZE_IN_STR_BYTES,
        >: ConstrainedVerboseFuzzyHashParams,
    {
        type Error = ParseError;

        #[inline]
        fn try_from(value: &[u8; SIZE_IN_BYTES]) -> Result<Self, Self::Error> {
            let checksum = FuzzyHashChecksumData::<SIZE_CKSUM, SIZE_BUCKETS>::from_raw(
                value[0..SIZE_CKSUM].try_into().unwrap(),
            );
            #[cfg(feature = "strict-parser")]
            if !checksum.is_valid() {
                return Err(ParseError::InvalidChecksum);
            }
            let lvalue = FuzzyHashLengthEncoding::from_raw(value[SIZE_CKSUM]);
            #[cfg(feature = "strict-parser")]
            if !lvalue.is_valid() {
                return Err(ParseError::LengthIsTooLarge);
            }
            let qratios = FuzzyHashQRatios::from_raw(value[SIZE_CKSUM + 1]);
            let value = &value[SIZE_CKSUM + 2..];
            optionally_unsafe! {
                invariant!(value.len() == SIZE_BODY);
            }
            Ok(Self {
                checksum,
                lvalue,
                qratios,
                body: FuzzyHashBodyData::from_raw(value.try_into().unwrap()),
            })
        }
    }

    impl<
            const SIZE_CKSUM: usize,
            const SIZE_BODY: usize,
            const SIZE_BUCKETS: usize,
            const SIZE_IN_BYTES: usize,
            const SIZE_IN_STR_BYTES: usize,
        > TryFrom<&[u8]>
        for FuzzyHash<SIZE_CKSUM, SIZE_BODY, SIZE_BUCKETS, SIZE_IN_BYTES, SIZE_IN_STR_BYTES>
    where
        FuzzyHashBodyData<SIZE_BODY>: FuzzyHashBody,
        FuzzyHashBucketsInfo<SIZE_BUCKETS>: FuzzyHashBucketMapper,
        FuzzyHashChecksumData<SIZE_CKSUM, SIZE_BUCKETS>: FuzzyHashChecksum,
        VerboseFuzzyHashParams<
            SIZE_CKSUM,
            SIZE_BODY,
            SIZE_BUCKETS,
            SIZE_IN_BYTES,
            SIZE_IN_STR_BYTES,
        >: ConstrainedVerboseFuzzyHashParams,
    {
        type Error = ParseError;

        #[inline(always)]
        fn try_from(value: &[u8]) -> Result<Self, Self::Error> {
            if value.len() != SIZE_IN_BYTES {
                return Err(ParseError::InvalidStringLength);
            }
            let value: &[u8; SIZE_IN_BYTES] = value.try_into().unwrap();
            Self::try_from(value)
        }
    }

    impl<
            const SIZE_CKSUM: usize,
            const SIZE_BODY: usize,
            const SIZE_BUCKETS: usize,
            const SIZE_IN_BYTES: usize,
            const SIZE_IN_STR_BYTES: usize,
        > FromStr
        for FuzzyHash<SIZE_CKSUM, SIZE_BODY, SIZE_BUCKETS, SIZE_IN_BYTES, SIZE_IN_STR_BYTES>
    where
        FuzzyHashBodyData<SIZE_BODY>: FuzzyHashBody,
        FuzzyHashBucketsInfo<SIZE_BUCKETS>: FuzzyHashBucketMapper,
        FuzzyHashChecksumData<SIZE_CKSUM, SIZE_BUCKETS>: FuzzyHashChecksum,
        VerboseFuzzyHashParams<
            SIZE_CKSUM,
            SIZE_BODY,
            SIZE_BUCKETS,
            SIZE_IN_BYTES,
            SIZE_IN_STR_BYTES,
        >: ConstrainedVerboseFuzzyHashParams,
    {
        type Err = ParseError;
        #[inline(always)]
        fn from_str(s: &str) -> Result<Self, Self::Err> {
            Self::from_str_with(s, None)
        }
    }

    impl<
            const SIZE_CKSUM: usize,
            const SIZE_BODY: usize,
            const SIZE_BUCKETS: usize,
            const SIZE_IN_BYTES: usize,
            const SIZE_IN_STR_BYTES: usize,
        > Display
        for FuzzyHash<SIZE_CKSUM, SIZE_BODY, SIZE_BUCKETS, SIZE_IN_BYTES, SIZE_IN_STR_BYTES>
    where
        FuzzyHashBodyData<SIZE_BODY>: FuzzyHashBody,
        FuzzyHashBucketsInfo<SIZE_BUCKETS>: FuzzyHashBucketMapper,
        FuzzyHashChecksumData<SIZE_CKSUM, SIZE_BUCKETS>: FuzzyHashChecksum,
        VerboseFuzzyHashParams<
            SIZE_CKSUM,
            SIZE_BODY,
            SIZE_BUCKETS,
            SIZE_IN_BYTES,
            SIZE_IN_STR_BYTES,
        >: ConstrainedVerboseFuzzyHashParams,
    {
        fn fmt(&self, f: &mut core::fmt::Formatter<'_>) -> core::fmt::Result {
            let mut buf = [0u8; SIZE_IN_STR_BYTES];
            self.store_into_str_bytes(&mut buf, HexStringPrefix::WithVersion)
                .unwrap();
            cfg_if::cfg_if! {
                if #[cfg(feature = "unsafe")] {
                    unsafe {
                        f.write_str(core::str::from_utf8_unchecked(&buf))
                    }
                } else {
                    f.write_str(core::str::from_utf8(&buf).unwrap())
                }
            }
        }
    }

    #[cfg(feature = "serde")]
    impl<
            const SIZE_CKSUM: usize,
            const SIZE_BODY: usize,
            const SIZE_BUCKETS: usize,
            const SIZE_IN_BYTES: usize,
            const SIZE_IN_STR_BYTES: usize,
        > Serialize
        for FuzzyHash<SIZE_CKSUM, SIZE_BODY, SIZE_BUCKETS, SIZE_IN_BYTES, SIZE_IN_STR_BYTES>
    where
        FuzzyHashBodyData<SIZE_BODY>: FuzzyHashBody,
        FuzzyHashBucketsInfo<SIZE_BUCKETS>: FuzzyHashBucketMapper,
        FuzzyHashChecksumData<SIZE_CKSUM, SIZE_BUCKETS>: FuzzyHashChecksum,
        VerboseFuzzyHashParams<
            SIZE_CKSUM,
            SIZE_BODY,
            SIZE_BUCKETS,
            SIZE_IN_BYTES,
            SIZE_IN_STR_BYTES,
        >: ConstrainedVerboseFuzzyHashParams,
    {
        fn serialize<S>(&self, serializer: S) -> Result<S::Ok, S::Error>
        where
            S: serde::Serializer,
        {
            if serializer.is_human_readable() {
                let mut buffer = [0u8; SIZE_IN_STR_BYTES];
                self.store_into_str_bytes(&mut buffer, HexStringPrefix::WithVersion)
                    .unwrap();
                #[cfg(feature = "unsafe")]
                unsafe {
                    serializer.serialize_str(core::str::from_utf8_unchecked(&buffer))
                }
                #[cfg(not(feature = "unsafe"))]
                {
                    serializer.serialize_str(core::str::from_utf8(&buffer).unwrap())
                }
            } else {
                let mut buffer = [0u8; SIZE_IN_BYTES];
                self.store_into_bytes(&mut buffer).unwrap();
                serializer.serialize_bytes(&buffer)
            }
        }
    }

    /// The visitor struct to handle [fuzzy hash](FuzzyHash) deserialization
    /// as either a string or a sequence of bytes.
    ///
    /// The corresponding visitor implementation handles a fuzzy hash as
    /// either a string or a sequence of bytes, both representing the string
    /// representation of that fuzzy hash.
    ///
    /// This visitor is used on human-readable formats (such as JSON).
    #[cfg(feature = "serde")]
    struct FuzzyHashStringVisitor<
        const SIZE_CKSUM: usize,
        const SIZE_BODY: usize,
        const SIZE_BUCKETS: usize,
        const SIZE_IN_BYTES: usize,
        const SIZE_IN_STR_BYTES: usize,
    >
    where
        FuzzyHashBodyData<SIZE_BODY>: FuzzyHashBody,
        FuzzyHashBucketsInfo<SIZE_BUCKETS>: FuzzyHashBucketMapper,
        FuzzyHashChecksumData<SIZE_CKSUM, SIZE_BUCKETS>: FuzzyHashChecksum,
        VerboseFuzzyHashParams<
            SIZE_CKSUM,
            SIZE_BODY,
            SIZE_BUCKETS,
            SIZE_IN_BYTES,
            SIZE_IN_STR_BYTES,
        >: ConstrainedVerboseFuzzyHashParams;

    #[cfg(feature = "serde")]
    impl<
            const SIZE_CKSUM: usize,
            const SIZE_BODY: usize,
            const SIZE_BUCKETS: usize,
            const SIZE_IN_BYTES: usize,
            const SIZE_IN_STR_BYTES: usize,
        > Visitor<'_>
        for FuzzyHashStringVisitor<
            SIZE_CKSUM,
            SIZE_BODY,
            SIZE_BUCKETS,
            SIZE_IN_BYTES,
            SIZE_IN_STR_BYTES,
        >
    where
        FuzzyHashBodyData<SIZE_BODY>: FuzzyHashBody,
        FuzzyHashBucketsInfo<SIZE_BUCKETS>: FuzzyHashBucketMapper,
        FuzzyHashChecksumData<SIZE_CKSUM, SIZE_BUCKETS>: FuzzyHashChecksum,
        VerboseFuzzyHashParams<
            SIZE_CKSUM,
            SIZE_BODY,
            SIZE_BUCKETS,
            SIZE_IN_BYTES,
            SIZE_IN_STR_BYTES,
        >: ConstrainedVerboseFuzzyHashParams,
    {
        type Value =
            FuzzyHash<SIZE_CKSUM, SIZE_BODY, SIZE_BUCKETS, SIZE_IN_BYTES, SIZE_IN_STR_BYTES>;

        fn expecting(&self, formatter: &mut core::fmt::Formatter) -> core::fmt::Result {
            formatter.write_str("a fuzzy hash string")
        }

        #[inline]
        fn visit_str<E>(self, v: &str) -> Result<Self::Value, E>
        where
            E: serde::de::Error,
        {
            self.visit_bytes(v.as_bytes())
        }

        fn visit_bytes<E>(self, v: &[u8]) -> Result<Self::Value, E>
        where
            E: serde::de::Error,
        {
            Self::Value::from_str_bytes(v, None).map_err(serde::de::Error::custom::<ParseError>)
        }
    }

    /// The visitor struct to handle [fuzzy hash](FuzzyHash) deserialization
    /// as a byte sequence.
    ///
    /// The corresponding visitor implementation handles a fuzzy hash as
    /// a plain sequence of bytes.
    ///
    /// This visitor is used on machine-friendly formats (such as Postcard).
    #[cfg(feature = "serde")]
    struct FuzzyHashBytesVisitor<
        const SIZE_CKSUM: usize,
        const SIZE_BODY: usize,
        const SIZE_BUCKETS: usize,
        const SIZE_IN_BYTES: usize,
        const SIZE_IN_STR_BYTES: usize,
    >
    where
        FuzzyHashBodyData<SIZE_BODY>: FuzzyHashBody,
        FuzzyHashBucketsInfo<SIZE_BUCKETS>: FuzzyHashBucketMapper,
        FuzzyHashChecksumData<SIZE_CKSUM, SIZE_BUCKETS>: FuzzyHashChecksum,
        VerboseFuzzyHashParams<
            SIZE_CKSUM,
            SIZE_BODY,
            SIZE_BUCKETS,
            SIZE_IN_BYTES,
            SIZE_IN_STR_BYTES,
        >: ConstrainedVerboseFuzzyHashParams;

    #[cfg(feature = "serde")]
    impl<
            const SIZE_CKSUM: usize,
            const SIZE_BODY: usize,
            const SIZE_BUCKETS: usize,
            const SIZE_IN_BYTES: usize,
            const SIZE_IN_STR_BYTES: usize,
        > Visitor<'_>
        for FuzzyHashBytesVisitor<
            SIZE_CKSUM,
            SIZE_BODY,
            SIZE_BUCKETS,
            SIZE_IN_BYTES,
            SIZE_IN_STR_BYTES,
        >
    where
        FuzzyHashBodyData<SIZE_BODY>: FuzzyHashBody,
        FuzzyHashBucketsInfo<SIZE_BUCKETS>: FuzzyHashBucketMapper,
        FuzzyHashChecksumData<SIZE_CKSUM, SIZE_BUCKETS>: FuzzyHashChecksum,
        VerboseFuzzyHashParams<
            SIZE_CKSUM,
            SIZE_BODY,
            SIZE_BUCKETS,
            SIZE_IN_BYTES,
            SIZE_IN_STR_BYTES,
        >: ConstrainedVerboseFuzzyHashParams,
    {
        type Value =
            FuzzyHash<SIZE_CKSUM, SIZE_BODY, SIZE_BUCKETS, SIZE_IN_BYTES, SIZE_IN_STR_BYTES>;

        fn expecting(&self, formatter: &mut core::fmt::Formatter) -> core::fmt::Result {
            formatter.write_str("struct FuzzyHash")
        }

        fn visit_bytes<E>(self, v: &[u8]) -> Result<Self::Value, E>
        where
            E: serde::de::Error,
        {
            if v.len() != SIZE_IN_BYTES {
                return Err(serde::de::Error::invalid_length(v.len(), &self));
            }
            Self::Value::try_from(v).map_err(serde::de::Error::custom::<ParseError>)
        }
    }

    #[cfg(feature = "serde")]
    impl<
            'de,
            const SIZE_CKSUM: usize,
            const SIZE_BODY: usize,
            const SIZE_BUCKETS: usize,
            const SIZE_IN_BYTES: usize,
            const SIZE_IN_STR_BYTES: usize,
        > Deserialize<'de>
        for FuzzyHash<SIZE_CKSUM, SIZE_BODY, SIZE_BUCKETS, SIZE_IN_BYTES, SIZE_IN_STR_BYTES>
    where
        FuzzyHashBodyData<SIZE_BODY>: FuzzyHashBody,
        FuzzyHashBucketsInfo<SIZE_BUCKETS>: FuzzyHashBucketMapper,
        FuzzyHashChecksumData<SIZE_CKSUM, SIZE_BUCKETS>: FuzzyHashChecksum,
        VerboseFuzzyHashParams<
            SIZE_CKSUM,
            SIZE_BODY,
            SIZE_BUCKETS,
            SIZE_IN_BYTES,
            SIZE_IN_STR_BYTES,
        >: ConstrainedVerboseFuzzyHashParams,
    {
        fn deserialize<D>(deserializer: D) -> Result<Self, D::Error>
        where
            D: serde::Deserializer<'de>,
        {
            if deserializer.is_human_readable() {
                #[cfg(feature = "serde-buffered")]
                {
                    deserializer.deserialize_string(
                        FuzzyHashStringVisitor::<
                            SIZE_CKSUM,
                            SIZE_BODY,
                            SIZE_BUCKETS,
                            SIZE_IN_BYTES,
                            SIZE_IN_STR_BYTES,
                        >,
                    )
                }
                #[cfg(not(feature = "serde-buffered"))]
                {
                    deserializer.deserialize_str(
                        FuzzyHashStringVisitor::<
                            SIZE_CKSUM,
                            SIZE_BODY,
                            SIZE_BUCKETS,
                            SIZE_IN_BYTES,
                            SIZE_IN_STR_BYTES,
                        >,
                    )
                }
            } else {
                #[cfg(feature = "serde-buffered")]
                {
                    deserializer.deserialize_byte_buf(
                        FuzzyHashBytesVisitor::<
                            SIZE_CKSUM,
                            SIZE_BODY,
                            SIZE_BUCKETS,
                            SIZE_IN_BYTES,
                            SIZE_IN_STR_BYTES,
                        >,
                    )
                }
                #[cfg(not(feature = "serde-buffered"))]
                {
                    deserializer.deserialize_bytes(
                        FuzzyHashBytesVisitor::<
                            SIZE_CKSUM,
                            SIZE_BODY,
                            SIZE_BUCKETS,
                            SIZE_IN_BYTES,
                            SIZE_IN_STR_BYTES,
                        >,
                    )
                }
            }
        }
    }
}

/// Type macro to represent the inner hash type of [`FuzzyHash`]
/// (an instantiation of [`inner::FuzzyHash`]).
macro_rules! inner_type {
    ($size_checksum:expr, $size_buckets:expr) => {
        <FuzzyHashParams<{$size_checksum}, {$size_buckets}> as ConstrainedFuzzyHashParams>::InnerFuzzyHashType
    };
}

/// The fuzzy hash struct representing a fuzzy hash (TLSH).
///
/// For the main functionalities, see [`FuzzyHashType`] documentation.
///
/// This struct supports conversion from:
///
/// *   An array of [`u8`]  
///     (containing a binary representation as described in
///     [`FuzzyHashType::store_into_bytes()`]) with the length
///     [`SIZE_IN_BYTES`](Self::SIZE_IN_BYTES) (through [`TryFrom`]),
/// *   A slice of [`u8`]  
///     (containing a binary representation as described in
///     [`FuzzyHashType::store_into_bytes()`]) with the length
///     [`SIZE_IN_BYTES`](Self::SIZE_IN_BYTES) (through [`TryFrom`]), or
/// *   A string  
///     with the TLSH hexadecimal representation (through [`FromStr`]).
///
/// and to:
///
/// *   A slice of [`u8`]  
///     containing a binary representation
///     using [`FuzzyHashType::store_into_bytes()`] or
/// *   A string (a slice of [`u8`] or a [`String`])  
///     with the TLSH hexadecimal representation
///     using either [`FuzzyHashType::store_into_str_bytes()`] or
///     through the [`Display`]-based formatting (including [`ToString`]).
#[derive(Debug, Clone, Copy, PartialEq, Eq)]
pub struct FuzzyHash<const SIZE_CKSUM: usize, const SIZE_BUCKETS: usize>
where
    FuzzyHashParams<SIZE_CKSUM, SIZE_BUCKETS>: ConstrainedFuzzyHashParams,
{
    /// The inner object representing actual contents of the fuzzy hash.
    inner: inner_type!(SIZE_CKSUM, SIZE_BUCKETS),
}

impl<const SIZE_CKSUM: usize, const SIZE_BUCKETS: usize> FuzzyHash<SIZE_CKSUM, SIZE_BUCKETS>
where
    FuzzyHashParams<SIZE_CKSUM, SIZE_BUCKETS>: ConstrainedFuzzyHashParams,
{
    /// Creates an object from the inner object.
    #[inline(always)]
    pub(crate) fn new(inner: inner_type!(SIZE_CKSUM, SIZE_BUCKETS)) -> Self {
        Self { inner }
    }
}

impl<const SIZE_CKSUM: usize, const SIZE_BUCKETS: usize> crate::FuzzyHashType
    for FuzzyHash<SIZE_CKSUM, SIZE_BUCKETS>
where
    FuzzyHashParams<SIZE_CKSUM, SIZE_BUCKETS>: ConstrainedFuzzyHashParams,
{
    type ChecksumType = <inner_type!(SIZE_CKSUM, SIZE_BUCKETS) as FuzzyHashType>::ChecksumType;
    type BodyType = <inner_type!(SIZE_CKSUM, SIZE_BUCKETS) as FuzzyHashType>::BodyType;

    const NUMBER_OF_BUCKETS: usize = <inner_type!(SIZE_CKSUM, SIZE_BUCKETS)>::NUMBER_OF_BUCKETS;
    const SIZE_IN_BYTES: usize = <inner_type!(SIZE_CKSUM, SIZE_BUCKETS)>::SIZE_IN_BYTES;
    const LEN_IN_STR_EXCEPT_PREFIX: usize =
        <inner_type!(SIZE_CKSUM, SIZE_BUCKETS)>::LEN_IN_STR_EXCEPT_PREFIX;
    const LEN_IN_STR: usize = <inner_type!(SIZE_CKSUM, SIZE_BUCKETS)>::LEN_IN_STR;
    #[inline(always)]
    fn from_str_bytes(
        bytes: &[u8],
        prefix: Option<HexStringPrefix>,
    ) -> Result<Self, crate::errors::ParseError> {
        <inner_type!(SIZE_CKSUM, SIZE_BUCKETS)>::from_str_bytes(bytes, prefix)
            .map(|inner| Self { inner })
    }
    #[inline(always)]
    fn checksum(&self) -> &Self::ChecksumType {
        self.inner.checksum()
    }
    #[inline(always)]
    fn length(&self) -> &FuzzyHashLengthEncoding {
        self.inner.length()
    }
    #[inline(always)]
    fn qratios(&self) -> &FuzzyHashQRatios {
        self.inner.qratios()
    }
    #[inline(always)]
    fn body(&self) -> &Self::BodyType {
        self.inner.body()
    }
    #[inline(always)]
    fn store_into_bytes(&self, out: &mut [u8]) -> Result<usize, crate::errors::OperationError> {
        self.inner.store_into_bytes(out)
    }
    #[inline(always)]
    fn store_into_str_bytes(
        &self,
        out: &mut [u8],
        prefix: HexStringPrefix,
    ) -> Result<usize, OperationError> {
        self.inner.store_into_str_bytes(out, prefix)
    }
    #[inline(always)]
    fn max_distance(config: ComparisonConfiguration) -> u32 {
        <inner_type!(SIZE_CKSUM, SIZE_BUCKETS)>::max_distance(config)
    }
    #[inline(always)]
    fn compare_with_config(&self, other: &Self, config: ComparisonConfiguration) -> u32 {
        self.inner.compare_with_config(&other.inner, config)
    }
    #[inline(always)]
    fn clear_checksum(&mut self) {
        self.inner.clear_checksum()
    }
}
impl<const SIZE_CKSUM: usize, const SIZE_BUCKETS: usize> Display
    for FuzzyHash<SIZE_CKSUM, SIZE_BUCKETS>
where
    FuzzyHashParams<SIZE_CKSUM, SIZE_BUCKETS>: ConstrainedFuzzyHashParams,
{
    #[inline(always)]
    fn fmt(&self, f: &mut core::fmt::Formatter<'_>) -> core::fmt::Result {
        self.inner.fmt(f)
    }
}
impl<const SIZE_CKSUM: usize, const SIZE_BUCKETS: usize> FromStr
    for FuzzyHash<SIZE_CKSUM, SIZE_BUCKETS>
where
    FuzzyHashParams<SIZE_CKSUM, SIZE_BUCKETS>: ConstrainedFuzzyHashParams,
    inner_type!(SIZE_CKSUM, SIZE_BUCKETS): FromStr<Err = ParseError>,
{
    type Err = ParseError;
    #[inline(always)]
    fn from_str(s: &str) -> Result<Self, Self::Err> {
        <inner_type!(SIZE_CKSUM, SIZE_BUCKETS)>::from_str(s).map(Self::new)
    }
}
impl<'a, const SIZE_CKSUM: usize, const SIZE_BUCKETS: usize, const SIZE_IN_BYTES: usize>
    TryFrom<&'a [u8; SIZE_IN_BYTES]> for FuzzyHash<SIZE_CKSUM, SIZE_BUCKETS>
where
    FuzzyHashParams<SIZE_CKSUM, SIZE_BUCKETS>: ConstrainedFuzzyHashParams,
    inner_type!(SIZE_CKSUM, SIZE_BUCKETS): TryFrom<&'a [u8; SIZE_IN_BYTES], Error = ParseError>,
{
    type Error = ParseError;
    #[inline(always)]
    fn try_from(value: &'a [u8; SIZE_IN_BYTES]) -> Result<Self, Self::Error> {
        <inner_type!(SIZE_CKSUM, SIZE_BUCKETS)>::try_from(value).map(Self::new)
    }
}
impl<'a, const SIZE_CKSUM: usize, const SIZE_BUCKETS: usize> TryFrom<&'a [u8]>
    for FuzzyHash<SIZE_CKSUM, SIZE_BUCKETS>
where
    FuzzyHashParams<SIZE_CKSUM, SIZE_BUCKETS>: ConstrainedFuzzyHashParams,
    inner_type!(SIZE_CKSUM, SIZE_BUCKETS): TryFrom<&'a [u8], Error = ParseError>,
{
    type Error = ParseError;
    #[inline(always)]
    fn try_from(value: &'a [u8]) -> Result<Self, Self::Error> {
        <inner_type!(SIZE_CKSUM, SIZE_BUCKETS)>::try_from(value).map(Self::new)
    }
}
#[cfg(feature = "serde")]
impl<const SIZE_CKSUM: usize, const SIZE_BUCKETS: usize> Serialize
    for FuzzyHash<SIZE_CKSUM, SIZE_BUCKETS>
where
    FuzzyHashParams<SIZE_CKSUM, SIZE_BUCKETS>: ConstrainedFuzzyHashParams,
    inner_type!(SIZE_CKSUM, SIZE_BUCKETS): Serialize,
{
    #[inline(always)]
    fn serialize<S>(&self, serializer: S) -> Result<S::Ok, S::Error>
    where
        S: serde::Serializer,
    {
        // Wrap inner implementation
        <inner_type!(SIZE_CKSUM, SIZE_BUCKETS) as Serialize>::serialize(&self.inner, serializer)
    }
}
#[cfg(feature = "serde")]
impl<'de, const SIZE_CKSUM: usize, const SIZE_BUCKETS: usize> Deserialize<'de>
    for FuzzyHash<SIZE_CKSUM, SIZE_BUCKETS>
where
    FuzzyHashParams<SIZE_CKSUM, SIZE_BUCKETS>: ConstrainedFuzzyHashParams,
    inner_type!(SIZE_CKSUM, SIZE_BUCKETS): Deserialize<'de>,
{
    #[inline(always)]
    fn deserialize<D>(deserializer: D) -> Result<Self, D::Error>
    where
        D: serde::Deserializer<'de>,
    {
        // Wrap inner implementation
        <inner_type!(SIZE_CKSUM, SIZE_BUCKETS) as Deserialize<'de>>::deserialize(deserializer)
            .map(Self::new)
    }
}

mod tests;
